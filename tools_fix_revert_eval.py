#!/usr/bin/env python3
"""Sensitivity self-test: every `fixed:` entry of KNOWN_FINDINGS.txt is reverted (alone) in an isolated copy and
the quick check of its property must report a violation again. Writes SENSITIVITY_FIX_REVERT.txt."""
import re, subprocess, os, sys, json
import importlib.util
spec=importlib.util.spec_from_file_location("se","/verif/tools_seed_eval.py"); se=importlib.util.module_from_spec(spec); spec.loader.exec_module(se)
only = sys.argv[1:]
rows=[]
for line in open("/verif/KNOWN_FINDINGS.txt"):
    m=re.match(r"fixed: property=(C\d+) ([0-9a-f]{7}) (.*)", line.strip())
    if not m: continue
    prop, commit, what = m.groups()
    if only and commit not in only and prop not in only: continue
    se.setup_eval()
    rc,o=se.sh(f"git -C /repo show {commit} -- src | git -C /tmp/eval/repo apply -R")
    if rc!=0:
        rows.append((prop,commit,"revert-does-not-apply",what[:70])); print(rows[-1]); continue
    rc,o=se.sh("cargo build --release --offline --bin flute-sim 2>&1 | tail -3", cwd="/tmp/eval/sim")
    if "Finished" not in o:
        rows.append((prop,commit,"revert-does-not-build",what[:70])); print(rows[-1]); se.sh("git -C /tmp/eval/repo checkout -q -- ."); continue
    env=dict(os.environ, VERIF_ROOT="/tmp/eval/root")
    rc,lines=se.run_check(prop, env)
    rule=[l.strip()[:150] for l in lines][:1]
    rows.append((prop,commit,"DETECTED" if rc==1 else f"missed(rc={rc})", (rule[0] if rule else what[:70])))
    print(rows[-1], flush=True)
    se.sh("git -C /tmp/eval/repo checkout -q -- .")
keep=[]
if only and os.path.exists("/verif/SENSITIVITY_FIX_REVERT.txt"):
    done={r[1] for r in rows}
    keep=[l for l in open("/verif/SENSITIVITY_FIX_REVERT.txt") if l.split(" | ")[1:2] and l.split(" | ")[1] not in done]
with open("/verif/SENSITIVITY_FIX_REVERT.txt","w") as f:
    for l in keep: f.write(l)
    for r in rows: f.write(" | ".join(r)+"\n")
