#!/usr/bin/env python3
"""Generate /verif/MANIFEST.json from the table below (kept in one place so that it stays valid)."""
import json, subprocess, os
ROOT = os.path.dirname(os.path.abspath(__file__))
hook_commits = subprocess.run(["git", "-C", "/repo", "log", "--format=%h %s"], capture_output=True, text=True).stdout.splitlines()
hooks = [l.split()[0] for l in hook_commits if l.split(" ", 1)[1].startswith("verif hooks")]

CLAIMED = {
 "C01": ("exploration", "4.C01",
   "Seeded search over clean-channel sessions (all 5 FEC schemes, E, B, parity, cenc, signalling, publish modes, queues, multiplex, interleave, 1-7 objects at boundary lengths, transfer counts, receive-once, sources, FS writer) run through the real Sender and MultiReceiver under a simulated clock and poll schedule; delivery reference model checks copies, bytes and metadata. Sampling, not proof.",
   "harness RFC decoder / FDT reader / models; hooks H1,H3 faithful; two recorded known findings (no-cache re-delivery, FDT de-listing between transfers)",
   "deterministic simulation (seeded scenario swarm, fault-free configuration) + delivery reference model"),
 "C02": ("fault_enumeration", "4.C02",
   "Every loss subset (all 2^n masks, n<=12 quick / n<=16 thorough) of a grid of 70 tiny sessions over all 5 FEC schemes is delivered to a fresh real receiver; plus seeded sessions under iid/burst loss, duplication, first-FDT loss and per-block threshold patterns (k, k-1, k+1 survivors). The harness computes the property's precondition from the delivered multiset and demands a complete exact copy when it holds; duplicates must not change the outcome.",
   "harness RFC decoder / partition reference / FDT reader; one recorded known finding (empty object whose lone packet precedes its FDT)",
   "deterministic simulation with fault enumeration (exhaustive loss subsets on small sessions + seeded loss/duplication schedules) + recoverability oracle"),
 "C03": ("exploration", "4.C03",
   "All permutations of the packets of 13 tiny sessions (<=7 packets) and seeded multi-transfer/carousel sessions under drop, duplication (adjacent and late), swap/jitter/full-shuffle reordering and, when MD5 is announced and checked, payload bit flips/truncation/extension; oracle: complete => exact bytes, never complete and failed.",
   "TOIs unique per scenario; harness decoder; sampling except the enumerated permutations",
   "deterministic simulation (seeded + exhaustive reordering, duplication, loss, payload corruption) + byte-exactness oracle"),
 "C08": ("exploration", "4.C08",
   "Seeded sender histories (5 FEC schemes, E, B, parity, interleave, multiplex, cenc, 1-3 transfers, carousel, removal at packet indices, immediate-stop, close-session packet); every emitted packet is decoded by the harness's independent RFC decoder and each transfer (Start/StopTransfer span) is checked against the RFC 5052 partition: source symbols exactly once, <= parity repair symbols, increasing ESIs, payload = E-byte slice of the (re-inflated) object, close flags only where allowed.",
   "harness RFC decoder / partition reference / flate2; two recorded known findings (Raptor re-cuts short blocks)",
   "deterministic simulation of the sender under seeded application histories and poll schedules + wire-tap trace oracle"),
 "C11": ("exploration", "4.C11",
   "Seeded interleavings of add/publish/remove/read with advancing time (both publish modes, queues, multiplex, late adds/publishes at arbitrary packet indices, multi-packet FDTs); trace oracle: complete listing instance before every object packet, new instances contiguous, only FDT packets after an explicit publish until the instance is out.",
   "harness RFC decoder, FDT reassembly and XML reader",
   "deterministic simulation of the sender under seeded operation interleavings + ordering invariant on the packet trace"),
 "C12": ("fault_enumeration", "4.C12",
   "remove_object after every packet index 0..44 of 81 small lifecycle configurations (enumerated) plus seeded lifecycle histories; sender queried after every poll; oracle: exact transfer counts, counter = completed transfers on the wire, removal semantics, finite reads at a fixed instant, only FDT packets when no object is left.",
   "Subscriber events delimit transfers; harness decoder",
   "deterministic simulation with enumerated removal points (fault = removal at packet index k) + lifecycle reference model"),
 "C13": ("exploration", "4.C13",
   "Enumerated grid (384 workloads) and seeded workloads over queues x multiplex x interleave x object sizes x late additions; per-packet scheduling invariants (strict priority, FIFO admission, multiplex bound, round-robin, interleave window, block order).",
   "readiness model as stated in the evidence rule; Subscriber events delimit transfers",
   "deterministic simulation of the sender scheduler + per-packet scheduling invariants"),
 "C14": ("exploration", "4.C14",
   "Seeded polling schedules on a discrete-event clock (1 us grids to multi-second stalls) x start times x carousel delay/interval x target duration/deadline (incl. zero/past) x sizes incl. 0/1 symbol x triggers; never-early oracles in exact rational arithmetic and due-packet liveness at drained polls; panics/hangs are violations.",
   "Subscriber events carry the instants flute uses; pacing tick definition from the code",
   "deterministic discrete-event simulation of the sender clock/poll schedule + timing model (never-early, due-packet liveness)"),
 "C04": ("exploration", "4.C04",
   "All datagrams of <= 3 bytes and every single-byte substitution at every header position of every packet of a 23-session corpus (enumerated, in session context), plus seeded sequences of 1-50 faults (random bytes, byte mutation, truncation, extension, splices, field-aware edits of every LCT/EXT_FTI/EXT_FDT/EXT_CENC/EXT_TIME/payload-id field, crafted FDT XML) interleaved with valid traffic into the real receiver; panics (overflow checks + debug assertions on), loop budget, per-push allocation limits via a counting allocator, abort/hang via worker-process isolation, and recovery of a valid session afterwards.",
   "documented usage is followed (cleanup() after every push); an accepted mutated packet may change that session's state (recovery then uses a fresh TSI)",
   "deterministic simulation with adversarial-input fault injection (exhaustive short datagrams and header substitutions + seeded mutation sequences) + crash/hang/allocation oracles + recovery oracle"),
 "C09": ("exploration", "4.C09",
   "Enumerated receiver-drop points, failing write calls and failing open calls on 20 tiny sessions, plus seeded histories of every kind used elsewhere (clean, lossy, reordered, malformed, late join) x writer faults x crash point x cleanup cadence; an online typestate automaton in the monitoring writer plus length/MD5/prefix oracles.",
   "on corrupted histories only the announced length/MD5 are used",
   "deterministic simulation (writer-fault and crash-point injection, enumerated + seeded) + typestate automaton"),
 "C15": ("exploration", "4.C15",
   "Seeded allocate/drop/add/remove/publish/read histories for every TOI width and a set of boundary / oversized / simulator-supplied 'random' initial values, checked against a live-interval model and the wire (independent decoder) and the FDT; handle drops from other threads under shuttle's seeded random and PCT schedulers with every allocator lock a scheduling point; compile-time Send probe.",
   "hooks H2 (TOI seed) and H4 (mutex yielding to shuttle) are faithful",
   "deterministic simulation (seeded operation histories + shuttle controlled thread scheduling) + set reference model"),
 "C16": ("fault_enumeration", "4.C16",
   "Carousel sessions recorded for >= 5 cycles; a fresh real receiver is started at every packet offset of one full cycle (exhaustive over join offsets) for a 60-configuration grid plus seeded configurations and must deliver every object exactly within two further full cycles.",
   "cycle definition as in the evidence rule",
   "deterministic simulation with exhaustive late-join (receiver start) fault points"),
 "C20": ("exploration", "4.C20",
   "Differential simulation: the same scenario run at the same simulated instants with buffer sources and with Read+Seek streams under seeded short-read schedules (1 byte, fixed, random, BufReader-like) or real temp files; packet sequences must be byte-identical.",
   "cenc null only (streams are not content-encoded by flute)",
   "deterministic differential simulation with short-read fault injection at the Read seam"),
 "C10": ("exploration", "4.C10",
   "Seeded add/remove/publish/set_complete/read histories on a virtual clock (12 s to minutes of simulated time) with hostile metadata, OTI overrides, cache-control, groups, ids near the 2^20 wrap, durations 1 s - 3 days, both publish modes, FDT cenc; every TOI-0 object is reassembled from the wire and read by the harness's own XML reader; oracle: well-formedness, id sequence and uniqueness, announced set and every attribute at publish time, Expires, supersede-before-expiry, and agreement with flute's own receiver.",
   "publication-event matching as described in the evidence rule; three recorded known findings (short durations republish late; literal TAB/CR/LF in attributes)",
   "deterministic simulation of the sender on a virtual clock + FDT reference model + independent XML reader"),
 "C17": ("exploration", "4.C17",
   "Seeded adversarial traffic (no FDT with in-band FTI, no FDT with FDT-only OTI, one symbol missing per block, thousands of TOIs / FDT instance ids / sessions; 20x more traffic than the configured cache) into the real receiver under a counting global allocator and the simulated monotonic clock; oracle: held bytes bounded by configuration, object abandoned and counted, error list bounded, everything released after timeouts + cleanup.",
   "bookkeeping allowances as stated in the evidence; hook H1 faithful",
   "deterministic simulation with adversarial traffic + heap accounting (counting allocator) + simulated timeouts"),
 "C05": ("fault_enumeration", "4.C05",
   "Every Content-Location string of the property's prefix x segment grammar (depth 3 quick / 5 thorough) plus seeded random strings, each delivered to the real filesystem writer through four simulated sessions whose outcome is decided by injected faults (complete, loss until object timeout, close-object before completion, receiver dropped); the directory tree around the destination (canaries at 7 levels) must be byte-identical afterwards. Sessions run in a forked child chroot()ed into the jail, so an escape is observable and harmless.",
   "claimed although input-heavy: which filesystem operations run (incl. delete) is decided by fault-driven session outcomes (DESIGN 4.C05); needs root for chroot (harness error otherwise)",
   "deterministic simulation with enumerated inputs x injected session-outcome faults + filesystem snapshot oracle in a chroot jail"),
 "C18": ("exploration", "4.C18",
   "All filter operation sequences to depth 3 (quick) / 4 (thorough) probed against a saturating-counter model; 2-4 real sessions merged by a seeded interleaver vs each alone (metamorphic), close-session packets, session timeouts on the simulated monotonic clock with per-read jitter, cleanup cadence; listener open/close automaton.",
   "saturating-counter reading of 'added more often than removed'; hook H1 jitter",
   "deterministic simulation (seeded stream interleavings + exhaustive filter histories) + metamorphic and reference-model oracles"),
 "C19": ("exploration", "4.C19",
   "Seeded receiver clock offsets (seconds to decades), jumps, transit delays around the expiry instant (outside +-2 s), durations, SCT present/absent, check on/off, object before/after the FDT; expiry model on the estimated sender clock and a metamorphic skew-invariance check on the writer trace.",
   "the FDT's own transit delay is absorbed by the SCT offset (as flute computes it)",
   "deterministic simulation with clock-skew/jump and delay injection + expiry reference model + metamorphic check"),
}
NOT_APPLICABLE = {
 "C06": "pure codec function of its input (encode/parse of one packet): no schedule, clock, fault or interleaving to simulate; deciding it is input enumeration, not simulation (DESIGN.md s5)",
 "C07": "pure integer function of (L,E,B): no schedule, clock, fault or interleaving to simulate (DESIGN.md s5)",
}
NOT_YET = "simulation check designed in DESIGN.md s4 but not built yet in this tree; not claimed until it runs"

props = [json.loads(l)["id"] for l in open(os.path.join(ROOT, "properties.jsonl"))]
checks = []
na = []
for p in props:
    if p in CLAIMED:
        level, ref, text, note, tech = CLAIMED[p]
        checks.append({
            "property_id": p,
            "quick_cmd": f"./check {p} quick",
            "thorough_cmd": f"./check {p} thorough",
            "evidence_file": f"/verif/evidence/{p}.json",
            "replay_cmd_template": "./check --replay {path}",
            "engine": "flute-sim",
            "level_claimed": {"category": level, "text": text, "design_ref": ref},
            "level_note": note,
            "technique": tech,
        })
    else:
        na.append({"property_id": p, "reason": NOT_APPLICABLE.get(p, NOT_YET)})
m = {
 "version": 1,
 "setup_cmd": "cd /verif/sim && CARGO_NET_OFFLINE=true cargo build --release --offline",
 "hooks": {
   "guard": "cargo feature ypo_flute_verif",
   "enable": "flute = { path = \"/repo\", features = [\"ypo_flute_verif\"] } in /verif/sim/Cargo.toml",
   "baseline_off_cmd": "cd /repo && (cargo nextest run --workspace --no-fail-fast --offline || cargo test --workspace --no-fail-fast --offline)",
   "source_commits": hooks,
   "add_only": True,
 },
 "engines": [{"name": "flute-sim", "path": "/verif/sim", "serves_properties": sorted(CLAIMED.keys()),
              "kind_free_text": "single-process deterministic simulator (Rust): seeded scenario generator, choice tape record/replay, simulated wall+monotonic clocks, lossy channel, monitoring writers, reference models, worker processes with crash/hang isolation, delta-debugging minimiser"}],
 "checks": checks,
 "not_applicable": na,
 "notes": "Exit codes: 0 held, 1 violation (VIOLATION line), 2 harness/build error. KNOWN_FINDINGS.txt lists recorded genuine defects (printed as KNOWN-FINDING lines) and fixed ones.",
}
json.dump(m, open(os.path.join(ROOT, "MANIFEST.json"), "w"), indent=1)
print("claimed", len(checks), "not_applicable", len(na))
