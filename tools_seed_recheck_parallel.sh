#!/bin/bash
# Re-check EVERY stored seeded change against the committed harness and /repo HEAD, N evaluation directories side by side.
# Usage: tools_seed_recheck_parallel.sh [N=4]   ->  SEEDED_RECHECK.txt
cd "$(dirname "$0")"
N=${1:-4}
ids=$(ls seeded | grep -E '^C[0-9]+-[0-9]+$' | sort -V)
i=0
for k in $(seq 0 $((N-1))); do : > /tmp/recheck.$k.ids; done
for id in $ids; do echo $id >> /tmp/recheck.$((i % N)).ids; i=$((i+1)); done
for k in $(seq 0 $((N-1))); do
  ( SEED_EVAL_DIR=/tmp/evalr$k SEED_RECHECK_OUT=/tmp/recheck.$k.out python3 tools_seed_recheck.py $(cat /tmp/recheck.$k.ids | tr '\n' ' ') > /tmp/recheck.$k.log 2>&1 ) &
done
wait
{
  echo "# re-check of all stored seeded changes: repo $(git -C /repo rev-parse --short HEAD), harness $(git -C /verif rev-parse --short HEAD)"
  cat /tmp/recheck.*.out | grep -v '^#' | sort -V
} > SEEDED_RECHECK.txt
grep -c "caught:" SEEDED_RECHECK.txt; grep -v "caught:" SEEDED_RECHECK.txt | grep -v '^#'
for k in $(seq 0 $((N-1))); do git -C /repo worktree remove --force /tmp/evalr$k/repo 2>/dev/null; rm -rf /tmp/evalr$k /tmp/evalr$k-tmp; done
