#!/usr/bin/env python3
"""Re-run the registered quick check(s) against EVERY stored seeded change with the current committed harness and
/repo HEAD (isolated copy under /tmp/eval). Writes SEEDED_RECHECK.txt: one line per change with the checks that
alarm now. A change that no check catches any more is a regression of the machinery."""
import json, glob, os, subprocess, sys, time
import importlib.util
spec = importlib.util.spec_from_file_location("se", "/verif/tools_seed_eval.py"); se = importlib.util.module_from_spec(spec); spec.loader.exec_module(se)
only = sys.argv[1:]
rows = []
for f in sorted(glob.glob("/verif/seeded/*/meta.json")):
    m = json.load(open(f))
    sid = m["id"]
    if only and sid not in only and m["breaks_property"] not in only:
        continue
    checks = [c for c in (m.get("caught_by") or [m["breaks_property"]])][:1] if m["breaks_property"] in (m.get("caught_by") or []) else (m.get("caught_by") or [m["breaks_property"]])[:1]
    if m["breaks_property"] in (m.get("caught_by") or []):
        checks = [m["breaks_property"]]
    se.setup_eval()
    rc, o = se.sh(f"git -C {se.EVAL}/repo apply /verif/seeded/{sid}/patch.diff")
    if rc != 0:
        rows.append((sid, "PATCH-DOES-NOT-APPLY", "")); print(rows[-1], flush=True); continue
    rc, o = se.sh("cargo build --release --offline --bin flute-sim 2>&1 | tail -3", cwd=f"{se.EVAL}/sim")
    if "Finished" not in o:
        rows.append((sid, "DOES-NOT-BUILD", o[-200:])); print(rows[-1], flush=True); se.sh(f"git -C {se.EVAL}/repo checkout -q -- ."); continue
    env = dict(os.environ, VERIF_ROOT=f"{se.EVAL}/root", CARGO_NET_OFFLINE="true")
    res = []
    for c in checks:
        rc, lines = se.run_check(c, env)
        res.append((c, rc, (lines[0].strip()[:140] if lines else "")))
    se.sh(f"git -C {se.EVAL}/repo checkout -q -- .")
    caught = [c for c, rc, _ in res if rc == 1]
    rows.append((sid, "caught:" + ",".join(caught) if caught else "NOT-CAUGHT rc=" + ",".join(str(r) for _, r, _ in res), res[0][2] if res else ""))
    print(rows[-1], flush=True)
head = subprocess.run("git -C /repo rev-parse --short HEAD; git -C /verif rev-parse --short HEAD", shell=True, capture_output=True, text=True).stdout.split()
out_file = os.environ.get("SEED_RECHECK_OUT", "/verif/SEEDED_RECHECK.txt" if not only else "")
if out_file:
    with open(out_file, "w") as f:
        f.write(f"# re-check of all stored seeded changes: repo {head[0]}, harness {head[1]}\n")
        for r in rows:
            f.write(" | ".join(r) + "\n")
print("not caught:", [r[0] for r in rows if not r[1].startswith("caught")])
