#!/bin/bash
# Quiet-on-unchanged-tree sweep: run every claimed check (quick tier, or $3) for seeds $1..$2, no evidence written.
# Usage: tools_sweep.sh <first> <last> [tier] [ids...]
cd "$(dirname "$0")"
first=${1:-1}; last=${2:-5}; tier=${3:-quick}; shift 3 2>/dev/null
ids="$@"
[ -z "$ids" ] && ids=$(python3 -c "import json;print(' '.join(c['property_id'] for c in json.load(open('MANIFEST.json'))['checks']))")
fail=0
for s in $(seq $first $last); do
  for p in $ids; do
    out=$(VERIF_SEED=$s ./check $p $tier --no-evidence 2>&1); rc=$?
    if [ $rc -ne 0 ]; then
      fail=1; echo "SEED $s $p rc=$rc"; echo "$out" | grep -E "VIOLATION|rule=|HARNESS" | cut -c1-400
      # keep the replay files: the next run of this property cleans replays/
      mkdir -p sweep_failures/seed$s && cp replays/$p-* sweep_failures/seed$s/ 2>/dev/null
    fi
  done
  echo "seed $s done"
done
echo "sweep finished fail=$fail"
exit $fail
