//! Own PRNG (SplitMix64 seeding + xoshiro256**) so that the stream never changes with a dependency.

#[derive(Clone, Debug)]
pub struct Rng {
    s: [u64; 4],
}

pub fn splitmix64(x: &mut u64) -> u64 {
    *x = x.wrapping_add(0x9E3779B97F4A7C15);
    let mut z = *x;
    z = (z ^ (z >> 30)).wrapping_mul(0xBF58476D1CE4E5B9);
    z = (z ^ (z >> 27)).wrapping_mul(0x94D049BB133111EB);
    z ^ (z >> 31)
}

pub fn fnv1a(bytes: &[u8]) -> u64 {
    let mut h: u64 = 0xcbf29ce484222325;
    for b in bytes {
        h ^= *b as u64;
        h = h.wrapping_mul(0x100000001b3);
    }
    h
}

pub fn mix(a: u64, b: u64) -> u64 {
    let mut x = a ^ b.rotate_left(32) ^ 0xD6E8FEB86659FD93;
    splitmix64(&mut x)
}

impl Rng {
    pub fn new(seed: u64) -> Rng {
        let mut x = seed;
        let s = [
            splitmix64(&mut x),
            splitmix64(&mut x),
            splitmix64(&mut x),
            splitmix64(&mut x),
        ];
        Rng { s }
    }

    /// Independent sub-stream derived from a label: adding draws in one component never shifts another.
    pub fn sub(&self, label: &str) -> Rng {
        Rng::new(mix(self.s[0] ^ self.s[2].rotate_left(17), fnv1a(label.as_bytes())))
    }

    pub fn next_u64(&mut self) -> u64 {
        let result = self.s[1].wrapping_mul(5).rotate_left(7).wrapping_mul(9);
        let t = self.s[1] << 17;
        self.s[2] ^= self.s[0];
        self.s[3] ^= self.s[1];
        self.s[1] ^= self.s[2];
        self.s[0] ^= self.s[3];
        self.s[2] ^= t;
        self.s[3] = self.s[3].rotate_left(45);
        result
    }

    /// Uniform in [0, n) (n > 0).
    pub fn below(&mut self, n: u64) -> u64 {
        debug_assert!(n > 0);
        // multiply-shift; bias is irrelevant here
        ((self.next_u64() as u128 * n as u128) >> 64) as u64
    }

    /// Uniform in [a, b] inclusive.
    pub fn range(&mut self, a: u64, b: u64) -> u64 {
        debug_assert!(a <= b);
        a + self.below(b - a + 1)
    }

    pub fn f64(&mut self) -> f64 {
        (self.next_u64() >> 11) as f64 / (1u64 << 53) as f64
    }

    pub fn chance(&mut self, p: f64) -> bool {
        self.f64() < p
    }

    pub fn one_in(&mut self, n: u64) -> bool {
        self.below(n) == 0
    }

    pub fn pick<'a, T>(&mut self, v: &'a [T]) -> &'a T {
        &v[self.below(v.len() as u64) as usize]
    }

    pub fn shuffle<T>(&mut self, v: &mut [T]) {
        for i in (1..v.len()).rev() {
            let j = self.below(i as u64 + 1) as usize;
            v.swap(i, j);
        }
    }

    /// Log-uniform in [a, b].
    pub fn log_uniform(&mut self, a: f64, b: f64) -> f64 {
        (a.ln() + self.f64() * (b.ln() - a.ln())).exp()
    }

    pub fn bytes(&mut self, n: usize) -> Vec<u8> {
        let mut v = Vec::with_capacity(n);
        while v.len() < n {
            let x = self.next_u64().to_le_bytes();
            let take = (n - v.len()).min(8);
            v.extend_from_slice(&x[..take]);
        }
        v
    }
}
