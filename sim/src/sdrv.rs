//! Sender driver: runs a real `flute::sender::Sender` under a simulated clock, an application
//! timeline and a polling schedule; every emitted packet is decoded by the wire tap and recorded.

use crate::ctx::Ctx;
use crate::monitor::{SubEvent, SubLog};
use crate::rng::Rng;
use crate::spec::*;
use crate::wire::{self, Decoded};
use flute::sender::{Sender, Toi};
use serde::{Deserialize, Serialize};
use std::sync::Arc;

pub const LOOP_BUDGET: u64 = 2_000_000;

#[derive(Clone, Debug, PartialEq, Serialize, Deserialize)]
pub enum When {
    /// microseconds after the simulation epoch
    AtUs(u64),
    /// right after the k-th packet (1-based) has been emitted
    AfterPkt(u64),
}

#[derive(Clone, Debug, PartialEq, Serialize, Deserialize)]
pub enum Op {
    Add(usize),
    Publish,
    Remove(usize),
    Trigger { obj: usize, at_us: Option<u64> },
    SetComplete,
    AllocToi,
    DropToi(usize),
    /// allocate and immediately drop `n` TOI handles (moves the allocator's cursor, e.g. a full cycle of a 16-bit space)
    ChurnToi(u32),
    /// a TOI handle is allocated and then dropped by the UNWINDING of a panic (caught at once: a worker thread that
    /// dies, a job under catch_unwind); the handle must be released like any other
    PanicHoldingToi,
    /// call the read-only accessors (fdt_xml_data, get_objects_in_fdt, nb_objects): they must have no side effect
    QueryAccessors,
    /// emit the explicit close-session packet
    CloseSession,
}

#[derive(Clone, Debug, PartialEq, Serialize, Deserialize)]
pub struct TimedOp {
    pub when: When,
    pub op: Op,
}

#[derive(Clone, Debug, PartialEq, Serialize, Deserialize)]
pub enum GapSpec {
    FixedUs(u64),
    RandomUs { seed: u64, min: u64, max: u64 },
    /// cycled
    ListUs(Vec<u64>),
}

#[derive(Clone, Debug, PartialEq, Serialize, Deserialize)]
pub struct PollSpec {
    pub start_us: u64,
    pub gap: GapSpec,
    /// max reads per poll (None = drain to `None`)
    pub burst: Option<u32>,
    pub max_polls: u32,
    pub max_pkts: u32,
    pub idle_polls_after_done: u32,
}

impl PollSpec {
    pub fn simple(gap_us: u64) -> PollSpec {
        PollSpec {
            start_us: 0,
            gap: GapSpec::FixedUs(gap_us),
            burst: None,
            max_polls: 20_000,
            max_pkts: 50_000,
            idle_polls_after_done: 2,
        }
    }
}

#[derive(Clone, Debug, PartialEq, Serialize, Deserialize)]
pub struct SenderScn {
    pub spec: SenderSpec,
    pub objects: Vec<ObjectSpec>,
    pub ops: Vec<TimedOp>,
    pub poll: PollSpec,
    pub snapshots: bool,
}

#[derive(Clone, Debug)]
pub struct Emitted {
    pub idx: usize,
    pub seq: u64,
    pub t_us: u64,
    pub poll: usize,
    pub bytes: Vec<u8>,
    pub dec: Decoded,
}

#[derive(Clone, Debug, PartialEq)]
pub enum OpResult {
    Added(u128),
    AddRejected(String),
    BuildFailed(String),
    Published(bool),
    Removed(bool),
    Triggered(bool),
    Toi(u128),
    /// n handles allocated and dropped; the values are in `SenderTrace::churn_values`
    Churned { n: u32, first: u128, last: u128 },
    Done,
    Skipped,
}

#[derive(Clone, Debug)]
pub struct OpRec {
    pub seq: u64,
    pub t_us: u64,
    pub op_index: usize,
    pub op: Op,
    pub result: OpResult,
    pub pkts_before: usize,
}

#[derive(Clone, Debug)]
pub struct PollRec {
    pub t_us: u64,
    pub seq_begin: u64,
    pub first_pkt: usize,
    pub n_pkts: usize,
    pub drained: bool,
}

#[derive(Clone, Debug)]
pub struct ObjSnap {
    pub obj: usize,
    pub toi: u128,
    pub is_added: bool,
    pub nb_transfers: Option<u64>,
}

#[derive(Clone, Debug)]
pub struct Snap {
    pub seq: u64,
    pub t_us: u64,
    pub pkts: usize,
    pub nb_objects: usize,
    pub objs: Vec<ObjSnap>,
    pub in_fdt: Vec<u128>,
}

#[derive(Debug, Default)]
pub struct SenderTrace {
    pub pkts: Vec<Emitted>,
    pub ops: Vec<OpRec>,
    pub polls: Vec<PollRec>,
    pub snaps: Vec<Snap>,
    pub sub: Vec<SubEvent>,
    /// TOI of each object of the scenario once added
    pub obj_toi: Vec<Option<u128>>,
    pub handle_tois: Vec<u128>,
    pub end_us: u64,
    pub finished: bool,
    pub wire_errors: Vec<String>,
    pub fdt_xml_at_end: Option<Vec<u8>>,
    /// allocator's reserved-TOI count at the end (hook) and handles the driver still holds
    pub toi_reserved_at_end: usize,
    pub handles_held_at_end: usize,
    /// (event seq, allocator's reserved-TOI count) sampled after every operation and every poll
    pub toi_reserved_samples: Vec<(u64, usize)>,
    /// values returned by each ChurnToi operation: (event seq of the op, values)
    pub churn_values: Vec<(u64, Vec<u128>)>,
}

pub struct GapGen {
    spec: GapSpec,
    rng: Rng,
    i: usize,
}

impl GapGen {
    pub fn new(spec: &GapSpec) -> GapGen {
        let seed = match spec {
            GapSpec::RandomUs { seed, .. } => *seed,
            _ => 0,
        };
        GapGen {
            spec: spec.clone(),
            rng: Rng::new(seed),
            i: 0,
        }
    }
    pub fn next(&mut self) -> u64 {
        match &self.spec {
            GapSpec::FixedUs(g) => *g,
            GapSpec::RandomUs { min, max, .. } => self.rng.range(*min, (*max).max(*min)),
            GapSpec::ListUs(l) => {
                if l.is_empty() {
                    return 1000;
                }
                let v = l[self.i % l.len()];
                self.i += 1;
                v
            }
        }
    }
}

pub struct Driver {
    pub sender: Sender,
    pub trace: SenderTrace,
    sub: Arc<SubLog>,
    handles: Vec<Option<Box<Toi>>>,
    /// which object of the scenario currently owns a TOI (TOIs are reused once their object is gone)
    toi_owner: std::collections::BTreeMap<u128, usize>,
    ctx: Ctx,
    scratch: std::path::PathBuf,
    pub cross_check: bool,
    publish_ahead_us: u64,
}

pub fn t0_us() -> u64 {
    T0_MS * 1000
}

impl Driver {
    pub fn new(scn: &SenderScn, ctx: &Ctx, scratch: &std::path::Path) -> Result<Driver, String> {
        flute::verif::reset_loop_budget(LOOP_BUDGET);
        let mut sender = scn.spec.build()?;
        let sub = SubLog::new(ctx.borrow().seq.clone());
        sender.subscribe(sub.clone());
        let trace = SenderTrace {
            obj_toi: vec![None; scn.objects.len()],
            ..Default::default()
        };
        Ok(Driver {
            sender,
            trace,
            sub,
            handles: Vec::new(),
            toi_owner: Default::default(),
            ctx: ctx.clone(),
            scratch: scratch.to_path_buf(),
            cross_check: true,
            publish_ahead_us: scn.spec.publish_ahead_us,
        })
    }

    pub fn apply(&mut self, scn: &SenderScn, op_index: usize, t_us: u64) {
        let op = scn.ops[op_index].op.clone();
        let now = systime_us(t_us);
        let pkts_before = self.trace.pkts.len();
        flute::verif::reset_loop_budget(LOOP_BUDGET);
        let mut churned: Option<Vec<u128>> = None;
        let result = match &op {
            Op::Add(i) => match scn.objects.get(*i) {
                None => OpResult::Skipped,
                Some(spec) => match spec.build(&self.scratch, *i) {
                    Err(e) => OpResult::BuildFailed(e),
                    Ok(mut obj) => {
                        if let Some(h) = spec.use_handle {
                            if let Some(slot) = self.handles.get_mut(h) {
                                if let Some(toi) = slot.take() {
                                    obj.set_toi(toi);
                                }
                            }
                        }
                        match self.sender.add_object(spec.prio, obj) {
                            Ok(toi) => {
                                self.trace.obj_toi[*i] = Some(toi);
                                self.toi_owner.insert(toi, *i);
                                OpResult::Added(toi)
                            }
                            Err(e) => OpResult::AddRejected(format!("{:?}", e)),
                        }
                    }
                },
            },
            Op::Publish => OpResult::Published(self.sender.publish(now + std::time::Duration::from_micros(self.publish_ahead_us)).is_ok()),
            // (an object whose TOI has meanwhile been given to a later object is gone: its TOI no longer names it)
            Op::Remove(i) => match self.trace.obj_toi.get(*i).copied().flatten().filter(|t| self.toi_owner.get(t) == Some(i)) {
                Some(toi) => OpResult::Removed(self.sender.remove_object(toi)),
                None => OpResult::Skipped,
            },
            Op::Trigger { obj, at_us } => match self.trace.obj_toi.get(*obj).copied().flatten().filter(|t| self.toi_owner.get(t) == Some(obj)) {
                Some(toi) => OpResult::Triggered(
                    self.sender
                        .trigger_transfer_at(toi, at_us.map(|u| systime_us(t0_us() + u))),
                ),
                None => OpResult::Skipped,
            },
            Op::SetComplete => {
                self.sender.set_complete();
                OpResult::Done
            }
            Op::AllocToi => {
                let t = self.sender.allocate_toi();
                let v = t.get();
                self.handles.push(Some(t));
                self.trace.handle_tois.push(v);
                OpResult::Toi(v)
            }
            Op::DropToi(i) => match self.handles.get_mut(*i) {
                Some(slot) if slot.is_some() => {
                    slot.take();
                    OpResult::Done
                }
                _ => OpResult::Skipped,
            },
            Op::ChurnToi(n) => {
                let mut values = Vec::with_capacity(*n as usize);
                for _ in 0..*n {
                    let h = self.sender.allocate_toi();
                    values.push(h.get());
                }
                let r = OpResult::Churned { n: *n, first: values.first().copied().unwrap_or(0), last: values.last().copied().unwrap_or(0) };
                churned = Some(values);
                r
            }
            Op::QueryAccessors => {
                let _ = self.sender.fdt_xml_data(now);
                let _ = self.sender.get_objects_in_fdt();
                let _ = self.sender.nb_objects();
                OpResult::Done
            }
            Op::PanicHoldingToi => {
                struct Expected;
                let s = &mut self.sender;
                let r = std::panic::catch_unwind(std::panic::AssertUnwindSafe(|| {
                    let _h = s.allocate_toi();
                    std::panic::panic_any(Expected);
                }));
                crate::engine::clear_last_panic();
                if r.is_ok() {
                    OpResult::Skipped
                } else {
                    OpResult::Done
                }
            }
            Op::CloseSession => {
                let bytes = self.sender.read_close_session(now);
                let poll = self.trace.polls.len();
                self.record(bytes, t_us, poll);
                OpResult::Done
            }
        };
        let seq = self.ctx.borrow().next_seq();
        {
            let mut c = self.ctx.borrow_mut();
            c.trace(&format!("op t={} {:?} -> {:?}", t_us, op, result));
            c.sig(match &op {
                Op::Add(_) => "S:add",
                Op::Publish => "S:publish",
                Op::Remove(_) => "S:remove",
                Op::Trigger { .. } => "S:trigger",
                Op::SetComplete => "S:complete",
                Op::AllocToi => "S:alloc",
                Op::DropToi(_) => "S:droptoi",
                Op::ChurnToi(_) => "S:churntoi",
                Op::PanicHoldingToi => "S:panic-holding-toi",
                Op::QueryAccessors => "S:query",
                Op::CloseSession => "S:close",
            });
        }
        if let Some(v) = churned {
            self.trace.churn_values.push((seq, v));
        }
        self.trace.toi_reserved_samples.push((seq, self.sender.verif_toi_reserved_count()));
        self.trace.ops.push(OpRec {
            seq,
            t_us,
            op_index,
            op,
            result,
            pkts_before,
        });
    }

    /// One `Sender::read` at simulated instant `t_us`.
    pub fn read(&mut self, t_us: u64, poll: usize) -> Option<usize> {
        flute::verif::reset_loop_budget(LOOP_BUDGET);
        let bytes = self.sender.read(systime_us(t_us))?;
        Some(self.record(bytes, t_us, poll))
    }

    pub fn record(&mut self, bytes: Vec<u8>, t_us: u64, poll: usize) -> usize {
        let seq = self.ctx.borrow().next_seq();
        let idx = self.trace.pkts.len();
        let dec = match wire::decode(&bytes) {
            Ok(d) => d,
            Err(e) => {
                self.trace
                    .wire_errors
                    .push(format!("pkt {} not decodable by the RFC decoder: {}", idx, e));
                // placeholder so that indices stay aligned
                wire::decode(&wire::encode(&wire::Build {
                    cci_words: 1,
                    tsi_len: 2,
                    toi_len: 2,
                    toi: u128::MAX >> 16,
                    ..Default::default()
                }))
                .unwrap()
            }
        };
        if self.cross_check {
            if let Some(e) = cross_check(&bytes, &dec) {
                self.trace.wire_errors.push(format!("pkt {}: {}", idx, e));
            }
        }
        {
            let mut c = self.ctx.borrow_mut();
            c.trace_bytes(&format!("pkt t={} ", t_us), &bytes);
            c.sig(if dec.toi == 0 {
                "P:fdt"
            } else if dec.close_object {
                "P:objB"
            } else {
                "P:obj"
            });
        }
        self.trace.pkts.push(Emitted {
            idx,
            seq,
            t_us,
            poll,
            bytes,
            dec,
        });
        idx
    }

    pub fn snapshot(&mut self, scn: &SenderScn, t_us: u64) {
        let seq = self.ctx.borrow().next_seq();
        let mut objs = Vec::new();
        for (i, t) in self.trace.obj_toi.clone().iter().enumerate() {
            if let Some(toi) = t {
                objs.push(ObjSnap {
                    obj: i,
                    toi: *toi,
                    is_added: self.sender.is_added(*toi),
                    nb_transfers: self.sender.nb_transfers(*toi),
                });
            }
        }
        let _ = scn;
        let mut in_fdt: Vec<u128> = self.sender.get_objects_in_fdt().keys().copied().collect();
        in_fdt.sort();
        self.trace.snaps.push(Snap {
            seq,
            t_us,
            pkts: self.trace.pkts.len(),
            nb_objects: self.sender.nb_objects(),
            objs,
            in_fdt,
        });
    }

    fn after_pkt_ops(&mut self, scn: &SenderScn, done: &mut [bool], t_us: u64) {
        let n = self.trace.pkts.len() as u64;
        for i in 0..scn.ops.len() {
            if done[i] {
                continue;
            }
            if let When::AfterPkt(k) = scn.ops[i].when {
                if k == n {
                    done[i] = true;
                    self.apply(scn, i, t_us);
                }
            }
        }
    }

    /// Run the whole scenario.
    pub fn run(mut self, scn: &SenderScn) -> SenderTrace {
        let mut done = vec![false; scn.ops.len()];
        let mut gaps = GapGen::new(&scn.poll.gap);
        let mut t_us = t0_us() + scn.poll.start_us;
        let mut idle_left: Option<u32> = None;
        // ops scheduled "after packet 0" run before anything else
        self.after_pkt_ops(scn, &mut done, t_us);
        for poll in 0..scn.poll.max_polls as usize {
            // timed ops due at or before this poll instant, in list order
            for i in 0..scn.ops.len() {
                if done[i] {
                    continue;
                }
                if let When::AtUs(at) = scn.ops[i].when {
                    if t0_us() + at <= t_us {
                        done[i] = true;
                        self.apply(scn, i, t_us);
                        self.after_pkt_ops(scn, &mut done, t_us);
                    }
                }
            }
            let seq_begin = self.ctx.borrow().next_seq();
            let first_pkt = self.trace.pkts.len();
            let mut n = 0usize;
            let mut drained = false;
            loop {
                if let Some(b) = scn.poll.burst {
                    if n as u32 >= b {
                        break;
                    }
                }
                if self.trace.pkts.len() >= scn.poll.max_pkts as usize {
                    break;
                }
                match self.read(t_us, poll) {
                    Some(_) => {
                        n += 1;
                        self.after_pkt_ops(scn, &mut done, t_us);
                    }
                    None => {
                        drained = true;
                        break;
                    }
                }
            }
            let seq_now = self.ctx.borrow().next_seq();
            self.trace.toi_reserved_samples.push((seq_now, self.sender.verif_toi_reserved_count()));
            self.trace.polls.push(PollRec {
                t_us,
                seq_begin,
                first_pkt,
                n_pkts: n,
                drained,
            });
            if scn.snapshots {
                self.snapshot(scn, t_us);
            }
            self.trace.end_us = t_us;
            if self.trace.pkts.len() >= scn.poll.max_pkts as usize {
                break;
            }
            let timed_left = (0..scn.ops.len())
                .any(|i| !done[i] && matches!(scn.ops[i].when, When::AtUs(_)));
            if drained && !timed_left && self.sender.nb_objects() == 0 {
                let left = idle_left.unwrap_or(scn.poll.idle_polls_after_done);
                if left == 0 {
                    self.trace.finished = true;
                    break;
                }
                idle_left = Some(left - 1);
            } else {
                idle_left = None;
            }
            t_us += gaps.next();
        }
        self.finish()
    }

    pub fn finish(mut self) -> SenderTrace {
        self.trace.fdt_xml_at_end = self
            .sender
            .fdt_xml_data(systime_us(self.trace.end_us.max(t0_us())))
            .ok();
        self.trace.sub = self.sub.events.lock().unwrap().clone();
        self.trace.toi_reserved_at_end = self.sender.verif_toi_reserved_count();
        self.trace.handles_held_at_end = self.handles.iter().filter(|h| h.is_some()).count();
        {
            let mut c = self.ctx.borrow_mut();
            c.sim_ms += (self.trace.end_us.saturating_sub(t0_us())) / 1000;
        }
        self.trace
    }
}

/// Compare the independent decoder's reading of a packet with flute's own parser.
pub fn cross_check(bytes: &[u8], dec: &Decoded) -> Option<String> {
    let p = match flute::core::alc::parse_alc_pkt(bytes) {
        Ok(p) => p,
        Err(e) => return Some(format!("flute cannot parse its own packet: {:?}", e)),
    };
    if p.lct.toi != dec.toi
        || p.lct.tsi != dec.tsi
        || p.lct.cci != dec.cci
        || p.lct.cp != dec.cp
        || p.lct.close_object != dec.close_object
        || p.lct.close_session != dec.close_session
        || p.lct.len != dec.hdr_len
    {
        return Some(format!(
            "LCT fields differ: flute toi={} tsi={} cp={} B={} A={} len={} / rfc toi={} tsi={} cp={} B={} A={} len={}",
            p.lct.toi, p.lct.tsi, p.lct.cp, p.lct.close_object, p.lct.close_session, p.lct.len,
            dec.toi, dec.tsi, dec.cp, dec.close_object, dec.close_session, dec.hdr_len
        ));
    }
    if p.transfer_length != dec.fti.as_ref().map(|f| f.transfer_length) {
        return Some(format!(
            "transfer length differs: flute {:?} rfc {:?}",
            p.transfer_length,
            dec.fti.as_ref().map(|f| f.transfer_length)
        ));
    }
    if let (Some(o), Some(f)) = (p.oti.as_ref(), dec.fti.as_ref()) {
        if o.encoding_symbol_length as u32 != f.e {
            return Some(format!("E differs: flute {} rfc {}", o.encoding_symbol_length, f.e));
        }
        if let Some(b) = f.b {
            if o.maximum_source_block_length != b {
                return Some(format!("B differs: flute {} rfc {}", o.maximum_source_block_length, b));
            }
        }
    }
    if p.cenc.map(|c| c as u8) != dec.cenc && dec.cenc.map(|c| c <= 3).unwrap_or(true) {
        return Some(format!("cenc differs: flute {:?} rfc {:?}", p.cenc, dec.cenc));
    }
    if p.fdt_info.as_ref().map(|f| (f.version as u8, f.fdt_instance_id)) != dec.fdt && dec.toi == 0 {
        return Some(format!("EXT_FDT differs: flute {:?} rfc {:?}", p.fdt_info, dec.fdt));
    }
    if p.data_payload_offset != dec.payload_off {
        return Some(format!(
            "payload offset differs: flute {} rfc {}",
            p.data_payload_offset, dec.payload_off
        ));
    }
    None
}
