//! Compile-time probe for C15: the sender and TOI handles can be moved across threads.
//! `./check C15 ...` builds this binary separately; a compile failure is reported as a violation.
fn assert_send<T: Send>() {}

fn main() {
    assert_send::<flute::sender::Sender>();
    assert_send::<Box<flute::sender::Toi>>();
    assert_send::<flute::sender::ObjectDesc>();
    println!("send probe ok");
}
