//! The harness's own view of the FDT instances in a sender trace: TOI-0 objects are reassembled
//! from the source symbols on the wire (RFC 5052 partition), content-decoded with the harness's
//! own use of flate2 and read with the harness's own XML reader.

use crate::sdrv::Emitted;
use crate::spec::{inflate, CencSpec};
use crate::wire;
use crate::xml::{self, Element};
use std::collections::BTreeMap;

#[derive(Clone, Debug, PartialEq)]
pub struct FdtFile {
    pub toi: u128,
    pub toi_raw: String,
    pub location: String,
    pub content_length: Option<u64>,
    pub transfer_length: Option<u64>,
    pub ctype: Option<String>,
    pub encoding: Option<String>,
    pub md5: Option<String>,
    pub fec_id: Option<u64>,
    pub fec_instance: Option<u64>,
    pub max_sbl: Option<u64>,
    pub esl: Option<u64>,
    pub max_n: Option<u64>,
    pub scheme_info: Option<String>,
    pub etag: Option<String>,
    pub groups: Vec<String>,
    /// "no-cache" | "max-stale" | "Expires:<ntp seconds>"
    pub cache: Option<String>,
    /// X-Optel-Propagator (base64 of a JSON object), as written
    pub optel: Option<String>,
}

#[derive(Clone, Debug)]
pub struct FdtDoc {
    pub expires: Option<u64>,
    pub complete: Option<String>,
    pub full_fdt: Option<String>,
    pub fec_id: Option<u64>,
    pub fec_instance: Option<u64>,
    pub max_sbl: Option<u64>,
    pub esl: Option<u64>,
    pub max_n: Option<u64>,
    pub scheme_info: Option<String>,
    pub groups: Vec<String>,
    pub files: Vec<FdtFile>,
}

fn num(e: &Element, a: &str) -> Option<u64> {
    e.attr_local(a).and_then(|v| v.trim().parse().ok())
}

pub fn read_doc(xml_bytes: &[u8]) -> Result<FdtDoc, String> {
    let root = xml::parse(xml_bytes)?;
    if root.local() != "FDT-Instance" {
        return Err(format!("root element is {}", root.name));
    }
    let mut files = Vec::new();
    for f in root.children_local("File") {
        let toi_raw = f.attr("TOI").ok_or("File without TOI")?.to_string();
        let toi: u128 = toi_raw
            .trim()
            .parse()
            .map_err(|_| format!("TOI {:?} not a number", toi_raw))?;
        let mut cache = None;
        for cc in f.children_local("Cache-Control") {
            for c in &cc.children {
                cache = Some(match c.local() {
                    "no-cache" => "no-cache".to_string(),
                    "max-stale" => "max-stale".to_string(),
                    "Expires" => format!("Expires:{}", c.text.trim()),
                    o => format!("?{}", o),
                });
            }
        }
        files.push(FdtFile {
            toi,
            toi_raw,
            location: f
                .attr("Content-Location")
                .ok_or("File without Content-Location")?
                .to_string(),
            content_length: num(f, "Content-Length"),
            transfer_length: num(f, "Transfer-Length"),
            ctype: f.attr("Content-Type").map(|s| s.to_string()),
            encoding: f.attr("Content-Encoding").map(|s| s.to_string()),
            md5: f.attr("Content-MD5").map(|s| s.to_string()),
            fec_id: num(f, "FEC-OTI-FEC-Encoding-ID"),
            fec_instance: num(f, "FEC-OTI-FEC-Instance-ID"),
            max_sbl: num(f, "FEC-OTI-Maximum-Source-Block-Length"),
            esl: num(f, "FEC-OTI-Encoding-Symbol-Length"),
            max_n: num(f, "FEC-OTI-Max-Number-of-Encoding-Symbols"),
            scheme_info: f
                .attr("FEC-OTI-Scheme-Specific-Info")
                .map(|s| s.to_string()),
            etag: f.attr_local("File-ETag").map(|s| s.to_string()),
            optel: f.attr("X-Optel-Propagator").map(|s| s.to_string()),
            groups: f.children_local("Group").map(|g| g.text.clone()).collect(),
            cache,
        });
    }
    Ok(FdtDoc {
        expires: num(&root, "Expires"),
        complete: root.attr("Complete").map(|s| s.to_string()),
        full_fdt: root.attr_local("FullFDT").map(|s| s.to_string()),
        fec_id: num(&root, "FEC-OTI-FEC-Encoding-ID"),
        fec_instance: num(&root, "FEC-OTI-FEC-Instance-ID"),
        max_sbl: num(&root, "FEC-OTI-Maximum-Source-Block-Length"),
        esl: num(&root, "FEC-OTI-Encoding-Symbol-Length"),
        max_n: num(&root, "FEC-OTI-Max-Number-of-Encoding-Symbols"),
        scheme_info: root
            .attr("FEC-OTI-Scheme-Specific-Info")
            .map(|s| s.to_string()),
        groups: root
            .children_local("Group")
            .map(|g| g.text.clone())
            .collect(),
        files,
    })
}

/// One transmission of one FDT instance as seen on the wire.
#[derive(Clone, Debug)]
pub struct FdtTx {
    pub instance_id: u32,
    pub version: u8,
    /// indices into the sender trace, in emission order
    pub pkts: Vec<usize>,
    pub first: usize,
    pub last: usize,
    pub transfer_length: u64,
    pub e: u64,
    pub b: u64,
    pub fec: u8,
    pub cenc: u8,
    pub has_sct: bool,
    /// RaptorQ: number of sub-blocks N and symbol alignment Al announced in EXT_FTI
    pub rq_n: u32,
    pub rq_al: u32,
    /// reassembled transfer-encoded bytes when every source symbol is present
    pub raw: Option<Vec<u8>>,
    pub xml: Option<Vec<u8>>,
    pub doc: Option<FdtDoc>,
    pub error: Option<String>,
    /// index of the packet that completed the set of source symbols
    pub complete_at: Option<usize>,
}

/// Number of source symbols in each block of an object of `l` bytes.
pub fn block_ks(b: u64, l: u64, e: u64) -> Vec<u64> {
    let p = wire::partition(b, l, e);
    (0..p.3).map(|s| wire::block_k(p, s)).collect()
}

/// Reassemble from source symbols: `syms` maps (sbn, esi) -> payload.
pub fn reassemble(
    syms: &BTreeMap<(u32, u32), Vec<u8>>,
    b: u64,
    l: u64,
    e: u64,
) -> Result<Vec<u8>, String> {
    let p = wire::partition(b, l, e);
    let mut out: Vec<u8> = Vec::with_capacity(l as usize);
    for sbn in 0..p.3 {
        let k = wire::block_k(p, sbn);
        for esi in 0..k {
            let s = syms
                .get(&(sbn as u32, esi as u32))
                .ok_or_else(|| format!("source symbol ({},{}) missing", sbn, esi))?;
            out.extend_from_slice(s);
        }
    }
    if (out.len() as u64) < l {
        return Err(format!("source symbols hold {} bytes, transfer length {}", out.len(), l));
    }
    out.truncate(l as usize);
    Ok(out)
}

pub fn cenc_of(code: u8) -> Option<CencSpec> {
    match code {
        0 => Some(CencSpec::Null),
        1 => Some(CencSpec::Zlib),
        2 => Some(CencSpec::Deflate),
        3 => Some(CencSpec::Gzip),
        _ => None,
    }
}

/// Split the TOI-0 packets of a trace into transmissions (a new one starts whenever the instance id
/// changes or (SBN 0, ESI 0) shows up again) and reassemble each.
pub fn fdt_transmissions(pkts: &[Emitted]) -> Vec<FdtTx> {
    let mut out: Vec<FdtTx> = Vec::new();
    let mut cur: Option<(FdtTx, BTreeMap<(u32, u32), Vec<u8>>)> = None;
    let finish = |c: (FdtTx, BTreeMap<(u32, u32), Vec<u8>>), out: &mut Vec<FdtTx>| {
        let (mut tx, mut syms) = c;
        if tx.fec == wire::FEC_RAPTORQ && tx.rq_n > 1 {
            // RaptorQ sub-blocking (RFC 6330 s4.4.1.2): rebuild the contiguous symbols of every complete block
            let sizes = wire::rq_subsymbol_sizes(tx.e as usize, tx.rq_n as usize, tx.rq_al as usize);
            let ks = block_ks(tx.b, tx.transfer_length, tx.e);
            for (sbn, k) in ks.iter().enumerate() {
                let block: Vec<Option<&Vec<u8>>> = (0..*k).map(|esi| syms.get(&(sbn as u32, esi as u32))).collect();
                if block.iter().all(|s| s.map(|x| x.len() as u64 == tx.e).unwrap_or(false)) {
                    let symbols: Vec<Vec<u8>> = block.iter().map(|s| (*s.unwrap()).clone()).collect();
                    let plain = wire::rq_deinterleave(&symbols, &sizes);
                    for (m, c) in plain.chunks(tx.e as usize).enumerate() {
                        syms.insert((sbn as u32, m as u32), c.to_vec());
                    }
                }
            }
        }
        match reassemble(&syms, tx.b, tx.transfer_length, tx.e) {
            Ok(raw) => {
                match cenc_of(tx.cenc).ok_or_else(|| "bad cenc".to_string()).and_then(|c| inflate(c, &raw)) {
                    Ok(x) => {
                        match read_doc(&x) {
                            Ok(d) => tx.doc = Some(d),
                            Err(e) => tx.error = Some(format!("XML: {}", e)),
                        }
                        tx.xml = Some(x);
                    }
                    Err(e) => tx.error = Some(e),
                }
                tx.raw = Some(raw);
            }
            Err(e) => tx.error = Some(e),
        }
        out.push(tx);
    };
    for p in pkts {
        if p.dec.toi != 0 || p.dec.close_session {
            continue;
        }
        let (ver, id) = match p.dec.fdt {
            Some(x) => x,
            None => continue,
        };
        let fti = match &p.dec.fti {
            Some(f) => f.clone(),
            None => continue,
        };
        let new_tx = match &cur {
            None => true,
            Some((tx, syms)) => {
                tx.instance_id != id
                    || (p.dec.sbn == 0 && p.dec.esi == 0 && syms.contains_key(&(0, 0)))
            }
        };
        if new_tx {
            if let Some(c) = cur.take() {
                finish(c, &mut out);
            }
            let b = match fti.fec {
                wire::FEC_RAPTORQ | wire::FEC_RAPTOR => {
                    // B is reconstructed from Z as the RFCs prescribe: ceil(ceil(F/Z)/T)
                    let z = fti.z.unwrap_or(1).max(1) as u64;
                    let bs = (fti.transfer_length + z - 1) / z;
                    (bs + fti.e as u64 - 1) / (fti.e as u64).max(1)
                }
                _ => fti.b.unwrap_or(0) as u64,
            };
            cur = Some((
                FdtTx {
                    instance_id: id,
                    version: ver,
                    pkts: Vec::new(),
                    first: p.idx,
                    last: p.idx,
                    transfer_length: fti.transfer_length,
                    e: fti.e as u64,
                    b,
                    fec: fti.fec,
                    cenc: p.dec.cenc.unwrap_or(0),
                    has_sct: p.dec.sct.is_some(),
                    rq_n: fti.n.unwrap_or(1),
                    rq_al: fti.al.unwrap_or(1),
                    raw: None,
                    xml: None,
                    doc: None,
                    error: None,
                    complete_at: None,
                },
                BTreeMap::new(),
            ));
        }
        let (tx, syms) = cur.as_mut().unwrap();
        tx.pkts.push(p.idx);
        tx.last = p.idx;
        let ks = block_ks(tx.b, tx.transfer_length, tx.e);
        let is_source = (p.dec.sbn as usize) < ks.len() && (p.dec.esi as u64) < ks[p.dec.sbn as usize];
        if is_source {
            syms.entry((p.dec.sbn, p.dec.esi))
                .or_insert_with(|| p.dec.payload.clone());
            let total: u64 = ks.iter().sum();
            if tx.complete_at.is_none() && syms.len() as u64 == total {
                tx.complete_at = Some(p.idx);
            }
        }
    }
    if let Some(c) = cur.take() {
        finish(c, &mut out);
    }
    out
}
