//! The simulated multicast channel: turns the sender's packet trace into the sequence of datagrams
//! one receiver sees. Every decision is drawn through the run context (choice tape), every fault
//! kind is counted when it actually fires.

use crate::ctx::Ctx;
use crate::rdrv::Delivery;
use crate::sdrv::SenderTrace;
use serde::{Deserialize, Serialize};

#[derive(Clone, Debug, PartialEq, Serialize, Deserialize)]
pub enum Reorder {
    None,
    /// swap with the next packet with probability p
    Swap(f64),
    /// with probability p delay a packet by up to `max` positions
    Jitter { p: f64, max: u32 },
    /// full shuffle (seeded through the tape)
    Shuffle,
    /// the `index`-th permutation in lexicographic order (Lehmer code) — exhaustive enumeration
    Perm(u64),
}

#[derive(Clone, Debug, PartialEq, Serialize, Deserialize)]
pub struct ChanSpec {
    pub p_drop: f64,
    pub p_dup: f64,
    pub p_dup_late: f64,
    pub reorder: Reorder,
    /// payload bit flip on object packets
    pub p_corrupt: f64,
    /// payload truncation on object packets
    pub p_truncate: f64,
    /// payload extension on object packets
    pub p_extend: f64,
    /// receiver joins late: the first n datagrams are not seen
    pub skip_first: u32,
    /// single-byte substitution in the header region (LCT header, extensions, FEC payload id)
    #[serde(default)]
    pub p_mutate_header: f64,
    /// field-aware edit (transfer length 0 / +-1, E, B, SBN, ESI, flags, cenc, FDT instance id, TOI, dropped
    /// EXT_FTI ...) re-encoded by the harness encoder: a well-formed packet that lies
    #[serde(default)]
    pub p_field_edit: f64,
}

impl ChanSpec {
    pub fn clean() -> ChanSpec {
        ChanSpec {
            p_drop: 0.0,
            p_dup: 0.0,
            p_dup_late: 0.0,
            reorder: Reorder::None,
            p_corrupt: 0.0,
            p_truncate: 0.0,
            p_extend: 0.0,
            skip_first: 0,
            p_mutate_header: 0.0,
            p_field_edit: 0.0,
        }
    }
}

#[derive(Default, Debug, Clone)]
pub struct ChanStats {
    pub dropped: u32,
    pub duplicated: u32,
    pub reordered: bool,
    pub corrupted: u32,
    pub header_mutated: u32,
    pub field_edited: u32,
    pub delivered: u32,
}

pub const N_FIELD_EDITS: u64 = 22;

/// The `v`-th (1-based) field-aware edit of a decoded packet, re-encoded; None when it does not apply.
pub fn field_edit(d: &crate::wire::Decoded, v: u64) -> Option<Vec<u8>> {
    use crate::wire;
    let mut b = wire::to_build(d);
    let has_fti = b.fti.is_some();
    match v {
        1..=9 | 17 | 19 | 20 if !has_fti => return None,
        _ => {}
    }
    match v {
        1 => b.fti.as_mut()?.transfer_length = 0,
        2 => b.fti.as_mut()?.transfer_length = 1,
        3 => {
            let f = b.fti.as_mut()?;
            f.transfer_length = f.transfer_length.saturating_sub(1)
        }
        4 => b.fti.as_mut()?.transfer_length += 1,
        5 => b.fti.as_mut()?.transfer_length *= 2,
        6 => {
            let f = b.fti.as_mut()?;
            f.e = (f.e / 2).max(1)
        }
        7 => b.fti.as_mut()?.e *= 2,
        8 => b.fti.as_mut()?.b = Some(1),
        9 => {
            let f = b.fti.as_mut()?;
            f.b = Some(f.b.unwrap_or(1) + 1)
        }
        10 => b.sbn += 1,
        11 => b.esi += 1,
        12 => b.esi += 1000,
        13 => b.sbl += 1,
        14 => b.close_object = !b.close_object,
        15 => b.cenc = Some(match b.cenc { Some(0) | None => 3, Some(_) => 0 }),
        16 => {
            let (ver, id) = b.fdt?;
            b.fdt = Some((ver, (id + 1) & 0xFFFFF))
        }
        17 => b.fti = None,
        18 => {
            if b.toi == 0 {
                return None;
            }
            b.toi += 1;
            let (tl, ol) = wire::field_lens(b.tsi, b.toi);
            b.tsi_len = tl;
            b.toi_len = ol;
        }
        19 => {
            let f = b.fti.as_mut()?;
            f.max_n = f.max_n.map(|x| x.saturating_sub(1))
        }
        20 => {
            let f = b.fti.as_mut()?;
            f.transfer_length /= 2
        }
        21 => b.sbn = b.sbn.wrapping_sub(1),
        _ => b.payload.truncate(b.payload.len() / 2),
    }
    Some(wire::encode(&b))
}

pub fn nth_permutation(n: usize, mut index: u64) -> Vec<usize> {
    let mut fact = vec![1u64; n + 1];
    for i in 1..=n {
        fact[i] = fact[i - 1].saturating_mul(i as u64);
    }
    let mut items: Vec<usize> = (0..n).collect();
    let mut out = Vec::with_capacity(n);
    for i in (0..n).rev() {
        let f = fact[i];
        let q = (index / f) as usize;
        index %= f;
        out.push(items.remove(q.min(items.len() - 1)));
    }
    out
}

pub fn factorial(n: usize) -> u64 {
    (1..=n as u64).product()
}

pub fn apply(spec: &ChanSpec, ctx: &Ctx, trace: &SenderTrace, label: &str) -> (Vec<Delivery>, ChanStats) {
    let mut st = ChanStats::default();
    let n = trace.pkts.len();
    // 1. which copies exist
    let mut copies: Vec<usize> = Vec::new();
    let mut late: Vec<usize> = Vec::new();
    for i in 0..n {
        if (i as u32) < spec.skip_first {
            continue;
        }
        if spec.p_drop > 0.0 && ctx.borrow_mut().fault(&format!("drop/{}", label), spec.p_drop) {
            st.dropped += 1;
            continue;
        }
        copies.push(i);
        if spec.p_dup > 0.0 && ctx.borrow_mut().fault(&format!("duplicate/{}", label), spec.p_dup) {
            copies.push(i);
            st.duplicated += 1;
        }
        if spec.p_dup_late > 0.0
            && ctx
                .borrow_mut()
                .fault(&format!("duplicate-late/{}", label), spec.p_dup_late)
        {
            late.push(i);
            st.duplicated += 1;
        }
    }
    if spec.skip_first > 0 {
        ctx.borrow_mut().count_fault("late-join");
    }
    // late copies are re-inserted at a later position
    for i in late {
        let pos0 = copies.iter().rposition(|x| *x == i).map(|p| p + 1).unwrap_or(0);
        let span = (copies.len() - pos0) as u64 + 1;
        let off = ctx.borrow_mut().pick(&format!("late-pos/{}", label), span) as usize;
        copies.insert(pos0 + off, i);
    }
    // 2. order
    match &spec.reorder {
        Reorder::None => {}
        Reorder::Swap(p) => {
            let mut i = 0;
            while i + 1 < copies.len() {
                if ctx.borrow_mut().fault(&format!("reorder-swap/{}", label), *p) {
                    copies.swap(i, i + 1);
                    st.reordered = true;
                    i += 2;
                } else {
                    i += 1;
                }
            }
        }
        Reorder::Jitter { p, max } => {
            let mut i = 0;
            while i < copies.len() {
                let d = ctx
                    .borrow_mut()
                    .fault_val(&format!("reorder-delay/{}", label), *p, *max as u64) as usize;
                if d > 0 {
                    let to = (i + d).min(copies.len() - 1);
                    let x = copies.remove(i);
                    copies.insert(to, x);
                    st.reordered = true;
                }
                i += 1;
            }
        }
        Reorder::Shuffle => {
            for j in (1..copies.len()).rev() {
                let r = ctx
                    .borrow_mut()
                    .pick(&format!("reorder-shuffle/{}", label), j as u64 + 1) as usize;
                copies.swap(j, r);
            }
            if copies.len() > 1 {
                ctx.borrow_mut().count_fault("reorder-shuffle");
                st.reordered = true;
            }
        }
        Reorder::Perm(index) => {
            let perm = nth_permutation(copies.len(), *index);
            copies = perm.iter().map(|p| copies[*p]).collect();
            if *index != 0 {
                ctx.borrow_mut().count_fault("reorder-perm");
                st.reordered = true;
            }
        }
    }
    // 3. content and times
    let base = trace.pkts.first().map(|p| p.t_us).unwrap_or(0);
    let mut out = Vec::with_capacity(copies.len());
    let mut last_t = base;
    for (pos, i) in copies.iter().enumerate() {
        let p = &trace.pkts[*i];
        let mut bytes = p.bytes.clone();
        if p.dec.toi != 0 && !p.dec.close_session && bytes.len() > p.dec.payload_off {
            let plen = bytes.len() - p.dec.payload_off;
            if spec.p_corrupt > 0.0 {
                let v = ctx.borrow_mut().fault_val(
                    &format!("corrupt-payload/{}", label),
                    spec.p_corrupt,
                    plen as u64 * 8,
                );
                if v > 0 {
                    let bit = (v - 1) as usize % (plen * 8);
                    bytes[p.dec.payload_off + bit / 8] ^= 1 << (bit % 8);
                    st.corrupted += 1;
                }
            }
            if spec.p_truncate > 0.0 {
                let v = ctx.borrow_mut().fault_val(
                    &format!("truncate-payload/{}", label),
                    spec.p_truncate,
                    plen as u64,
                );
                if v > 0 {
                    let cut = (v as usize).min(plen);
                    bytes.truncate(bytes.len() - cut);
                    st.corrupted += 1;
                }
            }
            if spec.p_extend > 0.0 {
                let v = ctx
                    .borrow_mut()
                    .fault_val(&format!("extend-payload/{}", label), spec.p_extend, 16);
                if v > 0 {
                    bytes.extend(std::iter::repeat(0xA5u8).take(v as usize));
                    st.corrupted += 1;
                }
            }
        }
        if spec.p_mutate_header > 0.0 {
            let hdr = p.dec.payload_off.min(bytes.len());
            let v = ctx.borrow_mut().fault_val(
                &format!("mutate-header/{}", label),
                spec.p_mutate_header,
                hdr as u64 * 256,
            );
            if v > 0 && hdr > 0 {
                let x = (v - 1) as usize;
                let pos = (x / 256) % hdr;
                let val = (x % 256) as u8;
                if bytes[pos] != val {
                    bytes[pos] = val;
                    st.corrupted += 1;
                    st.header_mutated += 1;
                }
            }
        }
        if spec.p_field_edit > 0.0 {
            let v = ctx.borrow_mut().fault_val(&format!("field-edit/{}", label), spec.p_field_edit, N_FIELD_EDITS);
            if v > 0 {
                if let Some(b) = field_edit(&p.dec, v) {
                    if b != bytes {
                        bytes = b;
                        st.corrupted += 1;
                        st.field_edited += 1;
                    }
                }
            }
        }
        // arrival times never run backwards at the receiver
        let t = if st.reordered {
            (base + pos as u64 * 200).max(last_t)
        } else {
            p.t_us.max(last_t)
        };
        last_t = t;
        out.push(Delivery {
            t_us: t,
            bytes,
            src: Some(*i),
            ep: 0,
        });
    }
    st.delivered = out.len() as u32;
    (out, st)
}
