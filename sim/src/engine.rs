//! Engine: seeded search over scenarios in worker processes, crash/hang isolation, minimisation,
//! replay files, known findings, evidence.

use crate::ctx::{RunCtx, Tape, TapeEntry, Violation};
use crate::rng::{fnv1a, mix, Rng};
use serde::{Deserialize, Serialize};
use serde_json::{json, Value};
use std::collections::{BTreeMap, BTreeSet};
use std::io::Write;
use std::path::{Path, PathBuf};
use std::time::{Duration, Instant};

pub const DEFAULT_SEED: u64 = 20260925;

#[derive(Clone, Copy, Debug, PartialEq, Eq)]
pub enum Tier {
    Quick,
    Thorough,
}

impl Tier {
    pub fn name(&self) -> &'static str {
        match self {
            Tier::Quick => "quick",
            Tier::Thorough => "thorough",
        }
    }
}

pub struct PropInfo {
    pub level: &'static str,
    pub rule: &'static str,
    pub assumptions: Vec<&'static str>,
    pub real: Vec<&'static str>,
    pub stub: Vec<&'static str>,
}

pub trait Prop: Sync {
    fn id(&self) -> &'static str;
    fn info(&self) -> PropInfo;
    /// number of run indices for the tier
    fn runs(&self, tier: Tier) -> u64;
    /// scenario for run `idx` (pure function of its arguments)
    fn generate(&self, idx: u64, tier: Tier, rng: &mut Rng) -> Value;
    /// execute one scenario; violations and statistics go into the context
    fn run(&self, scn: &Value, ctx: &crate::ctx::Ctx, scratch: &Path);
    /// candidate simplifications of a scenario (tried in order)
    fn shrink(&self, _scn: &Value) -> Vec<Value> {
        Vec::new()
    }
    /// description of the part of the space that is enumerated completely, if any
    fn exhaustive(&self, _tier: Tier) -> Option<String> {
        None
    }
    /// extra checks run once by the parent (e.g. compile-time probes); returns violations
    fn parent_checks(&self, _tier: Tier, _scratch: &Path) -> Vec<Violation> {
        Vec::new()
    }
}

pub fn run_seed(seed: u64, id: &str, idx: u64) -> u64 {
    mix(mix(seed, fnv1a(id.as_bytes())), idx)
}

#[derive(Clone, Debug, Serialize, Deserialize)]
pub struct ReplayFile {
    pub property: String,
    pub rule: String,
    pub class: String,
    pub seed: u64,
    pub run_index: u64,
    pub scenario: Value,
    pub tape: Tape,
    pub expected: Violation,
    pub minimised: bool,
    pub note: String,
    /// process-level failures (abort, wall-clock hang) have no recorded tape: replay re-draws the
    /// decisions from the seed (generate mode), which is just as deterministic
    #[serde(default)]
    pub gen_mode: bool,
}

pub struct RunOutcome {
    pub violations: Vec<Violation>,
    pub tape: Tape,
    pub trace_hash: u64,
    pub sig_hash: u64,
    pub nontrivial: bool,
    pub faults: BTreeMap<String, u64>,
    pub notes: BTreeMap<String, u64>,
    pub sim_ms: u64,
    pub trace_len: u64,
    pub log: Option<Vec<String>>,
}

thread_local! {
    static LAST_PANIC: std::cell::RefCell<Option<(String, String)>> = const { std::cell::RefCell::new(None) };
}

/// Forget a panic that the scenario itself raised and caught on purpose (C15: a handle dropped by an unwind).
pub fn clear_last_panic() {
    LAST_PANIC.with(|p| *p.borrow_mut() = None);
}

pub fn install_panic_hook() {
    std::panic::set_hook(Box::new(|info| {
        let loc = info
            .location()
            .map(|l| {
                let f = l.file();
                // keep the location stable across checkouts: strip everything up to "/src/"
                let short = match f.rfind("/src/") {
                    Some(p) => {
                        let pre = &f[..p];
                        let krate = pre.rsplit('/').next().unwrap_or("");
                        format!("{}{}", krate, &f[p..])
                    }
                    None => f.to_string(),
                };
                format!("{}:{}", short, l.line())
            })
            .unwrap_or_else(|| "?".into());
        let msg = if let Some(s) = info.payload().downcast_ref::<&str>() {
            s.to_string()
        } else if let Some(s) = info.payload().downcast_ref::<String>() {
            s.clone()
        } else {
            "non-string panic".to_string()
        };
        if std::env::var("FLUTE_SIM_BACKTRACE").is_ok() {
            eprintln!("panic at {}: {}\n{}", loc, msg, std::backtrace::Backtrace::force_capture());
        }
        LAST_PANIC.with(|p| *p.borrow_mut() = Some((loc, msg)));
    }));
}

/// Execute one scenario in-process (generate or replay mode), catching panics.
pub fn execute(
    prop: &dyn Prop,
    scn: &Value,
    seed: u64,
    tape: Option<&Tape>,
    scratch: &Path,
    with_log: bool,
) -> RunOutcome {
    let mut rc = match tape {
        None => RunCtx::generate(seed),
        Some(t) => RunCtx::replay(seed, t),
    };
    if with_log {
        rc.log = Some(Vec::new());
    }
    let ctx = rc.into_shared();
    flute::verif::clock::set(Duration::ZERO);
    flute::verif::clock::set_jitter(Duration::ZERO);
    flute::verif::set_toi_seed(None);
    let _ = flute::verif::take_probes();
    LAST_PANIC.with(|p| *p.borrow_mut() = None);
    let r = std::panic::catch_unwind(std::panic::AssertUnwindSafe(|| {
        prop.run(scn, &ctx, scratch);
    }));
    flute::verif::reset_loop_budget(u64::MAX);
    if r.is_err() {
        let (loc, msg) = LAST_PANIC
            .with(|p| p.borrow_mut().take())
            .unwrap_or(("?".into(), "?".into()));
        let (rule, class) = if msg.starts_with(flute::verif::LOOP_BUDGET_PANIC) {
            (
                format!("{}/hang", prop.id()),
                msg[flute::verif::LOOP_BUDGET_PANIC.len()..].to_string(),
            )
        } else {
            (format!("{}/panic", prop.id()), loc.clone())
        };
        // the context may still be borrowed by an unwound frame: use try_borrow_mut
        if let Ok(mut c) = ctx.try_borrow_mut() {
            c.violate(&rule, &class, format!("panic at {}: {}", loc, truncate(&msg, 300)));
        }
    }
    let probes = flute::verif::take_probes();
    let mut c = ctx.borrow_mut();
    for (k, v) in probes {
        c.note_n(&format!("probe:{}", k), v);
    }
    RunOutcome {
        violations: c.violations.clone(),
        tape: Tape(c.tape_out.clone()),
        trace_hash: c.trace_hash(),
        sig_hash: c.sig_hash(),
        nontrivial: c.nontrivial,
        faults: c.faults.clone(),
        notes: c.notes.clone(),
        sim_ms: c.sim_ms,
        trace_len: c.trace_len,
        log: c.log.take(),
    }
}

pub fn truncate(s: &str, n: usize) -> String {
    if s.len() <= n {
        s.to_string()
    } else {
        let mut e = n;
        while !s.is_char_boundary(e) {
            e -= 1;
        }
        format!("{}…", &s[..e])
    }
}

fn has_violation(o: &RunOutcome, rule: &str, class: &str) -> bool {
    o.violations.iter().any(|v| v.rule == rule && v.class == class)
}

/// Shrink (scenario, tape) while the same (rule, class) persists. Candidates run in replay mode.
pub fn minimise(
    prop: &dyn Prop,
    scn: &Value,
    seed: u64,
    tape: &Tape,
    target: &Violation,
    scratch: &Path,
    budget: Duration,
) -> (Value, Tape, Violation, u32) {
    let start = Instant::now();
    let mut cur_scn = scn.clone();
    let mut cur_tape = tape.clone();
    let mut cur_v = target.clone();
    let mut tried = 0u32;
    let fails = |s: &Value, t: &Tape, tried: &mut u32| -> Option<Violation> {
        *tried += 1;
        let o = execute(prop, s, seed, Some(t), scratch, false);
        o.violations
            .iter()
            .find(|v| v.rule == target.rule && v.class == target.class)
            .cloned()
    };
    // sanity: the recorded tape must reproduce
    if fails(&cur_scn, &cur_tape, &mut tried).is_none() {
        return (cur_scn, cur_tape, cur_v, tried);
    }
    loop {
        let mut improved = false;
        // 1. tape: ddmin-style chunk removal
        let mut chunk = (cur_tape.0.len() + 1) / 2;
        while chunk >= 1 && !cur_tape.0.is_empty() && start.elapsed() < budget {
            let mut i = 0;
            let mut any = false;
            while i < cur_tape.0.len() && start.elapsed() < budget {
                let mut cand: Vec<TapeEntry> = cur_tape.0.clone();
                let end = (i + chunk).min(cand.len());
                cand.drain(i..end);
                let cand = Tape(cand);
                if let Some(v) = fails(&cur_scn, &cand, &mut tried) {
                    cur_tape = cand;
                    cur_v = v;
                    any = true;
                    improved = true;
                } else {
                    i += chunk;
                }
            }
            if !any {
                if chunk == 1 {
                    break;
                }
                chunk = (chunk + 1) / 2;
            }
        }
        // 2. scenario simplifications
        let mut guard = 0;
        'outer: while start.elapsed() < budget && guard < 200 {
            guard += 1;
            for cand in prop.shrink(&cur_scn) {
                if start.elapsed() >= budget {
                    break 'outer;
                }
                if cand == cur_scn {
                    continue;
                }
                if let Some(v) = fails(&cand, &cur_tape, &mut tried) {
                    cur_scn = cand;
                    cur_v = v;
                    improved = true;
                    continue 'outer;
                }
            }
            break;
        }
        if !improved || start.elapsed() >= budget {
            break;
        }
    }
    (cur_scn, cur_tape, cur_v, tried)
}

// ---------------------------------------------------------------------------------------------
// Known findings

#[derive(Clone, Debug)]
pub struct Known {
    pub property: String,
    pub key: String,
    pub what: String,
}

pub fn load_known(verif_root: &Path) -> Vec<Known> {
    let mut out = Vec::new();
    let txt = std::fs::read_to_string(verif_root.join("KNOWN_FINDINGS.txt")).unwrap_or_default();
    for line in txt.lines() {
        let line = line.trim();
        if !line.starts_with("known:") {
            continue;
        }
        let rest = line["known:".len()..].trim();
        let (head, what) = match rest.split_once("::") {
            Some((h, w)) => (h.trim(), w.trim()),
            None => (rest, ""),
        };
        let mut property = String::new();
        let mut key = String::new();
        for tok in head.split_whitespace() {
            if let Some(v) = tok.strip_prefix("property=") {
                property = v.to_string();
            } else if let Some(v) = tok.strip_prefix("key=") {
                key = v.to_string();
            }
        }
        if !property.is_empty() && !key.is_empty() {
            out.push(Known {
                property,
                key,
                what: what.to_string(),
            });
        }
    }
    out
}

pub fn known_key(v: &Violation) -> String {
    format!("{}#{}", v.rule, v.class)
}

// ---------------------------------------------------------------------------------------------
// Worker

#[derive(Serialize, Deserialize, Default, Debug, Clone)]
pub struct WorkerStats {
    pub runs: u64,
    pub nontrivial: u64,
    pub sigs: Vec<u64>,
    pub faults: BTreeMap<String, u64>,
    pub notes: BTreeMap<String, u64>,
    pub sim_ms: u64,
    pub trace_len: u64,
    pub determinism_pairs: u64,
    pub determinism_mismatch: u64,
    pub samples: Vec<Value>,
    pub last_idx: u64,
    pub minimise_runs: u64,
}

#[derive(Serialize, Deserialize, Debug, Clone)]
pub struct FoundViolation {
    pub violation: Violation,
    pub run_index: u64,
    pub replay: String,
    pub tape_len: usize,
    pub scn_size: usize,
}

#[derive(Serialize, Deserialize, Debug, Clone)]
pub enum WorkerLine {
    /// a worker process starts here (a restarted worker appends to the same file: segment boundary)
    Begin { start: u64 },
    Stats(WorkerStats),
    Found(FoundViolation),
    /// further occurrences of an already reported (rule, class)
    Dup { key: String, count: u64 },
    Done,
}

pub struct WorkerArgs {
    pub tier: Tier,
    pub seed: u64,
    pub shard: u64,
    pub shards: u64,
    pub start: u64,
    pub out: PathBuf,
    pub journal: PathBuf,
    pub scratch: PathBuf,
    pub replay_dir: PathBuf,
    /// run indices that are not executed (confirmed hangs / crashes, reported by the parent)
    pub skip: Vec<u64>,
}

pub fn worker(prop: &dyn Prop, a: &WorkerArgs) {
    install_panic_hook();
    std::fs::create_dir_all(&a.scratch).ok();
    let total = prop.runs(a.tier);
    let mut out = std::fs::OpenOptions::new()
        .create(true)
        .append(true)
        .open(&a.out)
        .expect("worker out");
    let mut stats = WorkerStats::default();
    let mut sigs: BTreeSet<u64> = BTreeSet::new();
    let mut seen: BTreeMap<String, u64> = BTreeMap::new();
    let mut idx = a.start;
    // align to shard
    while idx % a.shards != a.shard {
        idx += 1;
    }
    let mut since_flush = 0u64;
    let emit = |out: &mut std::fs::File, l: &WorkerLine| {
        let s = serde_json::to_string(l).unwrap();
        writeln!(out, "{}", s).ok();
        out.flush().ok();
    };
    let det_every = 17u64;
    emit(&mut out, &WorkerLine::Begin { start: idx });
    while idx < total {
        if a.skip.contains(&idx) {
            idx += a.shards;
            continue;
        }
        std::fs::write(&a.journal, format!("{}", idx)).ok();
        let rs = run_seed(a.seed, prop.id(), idx);
        let mut rng = Rng::new(rs).sub("scenario");
        let scn = prop.generate(idx, a.tier, &mut rng);
        let o = execute(prop, &scn, rs, None, &a.scratch, false);
        stats.runs += 1;
        stats.last_idx = idx;
        stats.sim_ms += o.sim_ms;
        stats.trace_len += o.trace_len;
        if o.nontrivial {
            stats.nontrivial += 1;
            sigs.insert(o.sig_hash);
        }
        for (k, v) in &o.faults {
            *stats.faults.entry(k.clone()).or_insert(0) += v;
        }
        for (k, v) in &o.notes {
            *stats.notes.entry(k.clone()).or_insert(0) += v;
        }
        if stats.samples.len() < 2 && o.nontrivial {
            stats.samples.push(json!({
                "run_index": idx,
                "run_seed": rs,
                "scenario": scn,
                "tape_entries": o.tape.0.len(),
                "tape_head": o.tape.0.iter().take(12).collect::<Vec<_>>(),
                "faults_fired": o.faults,
                "trace_events": o.trace_len,
                "violations": o.violations.len(),
            }));
        }
        // in-process determinism pair: replay the recorded tape, hashes must agree
        if (idx / a.shards) % det_every == 0 {
            let o2 = execute(prop, &scn, rs, Some(&o.tape), &a.scratch, false);
            stats.determinism_pairs += 1;
            if o2.trace_hash != o.trace_hash {
                stats.determinism_mismatch += 1;
            }
        }
        for v in &o.violations {
            let key = known_key(v);
            let n = seen.entry(key.clone()).or_insert(0);
            *n += 1;
            if *n > 1 {
                continue;
            }
            let (mscn, mtape, mv, tried) = minimise(
                prop,
                &scn,
                rs,
                &o.tape,
                v,
                &a.scratch,
                Duration::from_secs(if a.tier == Tier::Quick { 8 } else { 20 }),
            );
            stats.minimise_runs += tried as u64;
            let file = ReplayFile {
                property: prop.id().to_string(),
                rule: mv.rule.clone(),
                class: mv.class.clone(),
                seed: rs,
                run_index: idx,
                scenario: mscn.clone(),
                tape: mtape.clone(),
                expected: mv.clone(),
                minimised: true,
                note: format!(
                    "found at run index {} with VERIF_SEED={}; {} candidate runs while minimising; original tape {} entries",
                    idx, a.seed, tried, o.tape.0.len()
                ),
                gen_mode: false,
            };
            let name = format!(
                "{}-{}-{:016x}.json",
                prop.id(),
                sanitize(&format!("{}-{}", mv.rule, mv.class)),
                rs
            );
            std::fs::create_dir_all(&a.replay_dir).ok();
            let path = a.replay_dir.join(name);
            std::fs::write(&path, serde_json::to_string_pretty(&file).unwrap()).ok();
            emit(
                &mut out,
                &WorkerLine::Found(FoundViolation {
                    violation: mv,
                    run_index: idx,
                    replay: path.to_string_lossy().to_string(),
                    tape_len: mtape.0.len(),
                    scn_size: mscn.to_string().len(),
                }),
            );
        }
        since_flush += 1;
        if since_flush >= 500 {
            since_flush = 0;
            stats.sigs = sigs.iter().copied().collect();
            emit(&mut out, &WorkerLine::Stats(stats.clone()));
        }
        idx += a.shards;
    }
    stats.sigs = sigs.iter().copied().collect();
    emit(&mut out, &WorkerLine::Stats(stats.clone()));
    for (k, n) in seen {
        if n > 1 {
            emit(&mut out, &WorkerLine::Dup { key: k, count: n - 1 });
        }
    }
    emit(&mut out, &WorkerLine::Done);
    std::fs::remove_file(&a.journal).ok();
}

pub fn sanitize(s: &str) -> String {
    let mut o: String = s
        .chars()
        .map(|c| if c.is_ascii_alphanumeric() || c == '-' || c == '_' || c == '.' { c } else { '_' })
        .collect();
    if o.len() > 80 {
        o.truncate(80);
    }
    o
}

// ---------------------------------------------------------------------------------------------
// Replay of a file (fresh process)

/// Returns 1 if the expected violation reproduces, 0 if not, 2 on harness error.
pub fn replay_file(props: &[&dyn Prop], path: &Path, verbose: bool) -> i32 {
    install_panic_hook();
    let txt = match std::fs::read_to_string(path) {
        Ok(t) => t,
        Err(e) => {
            eprintln!("cannot read {}: {}", path.display(), e);
            return 2;
        }
    };
    let f: ReplayFile = match serde_json::from_str(&txt) {
        Ok(f) => f,
        Err(e) => {
            eprintln!("cannot parse {}: {}", path.display(), e);
            return 2;
        }
    };
    let prop = match props.iter().find(|p| p.id() == f.property) {
        Some(p) => *p,
        None => {
            eprintln!("unknown property {}", f.property);
            return 2;
        }
    };
    let scratch = scratch_root().join("replay");
    std::fs::create_dir_all(&scratch).ok();
    let o = execute(prop, &f.scenario, f.seed, if f.gen_mode { None } else { Some(&f.tape) }, &scratch, verbose);
    std::fs::remove_dir_all(scratch_root()).ok();
    if verbose {
        if let Some(l) = &o.log {
            for e in l {
                println!("  {}", e);
            }
        }
        for v in &o.violations {
            println!("violation {} [{}]: {}", v.rule, v.class, v.msg);
        }
    }
    if has_violation(&o, &f.rule, &f.class) {
        println!("VIOLATION property={} replay={}", f.property, path.display());
        let v = o
            .violations
            .iter()
            .find(|v| v.rule == f.rule && v.class == f.class)
            .unwrap();
        println!("  rule={} class={} :: {}", v.rule, v.class, v.msg);
        1
    } else {
        println!(
            "replay of {} did not reproduce {} [{}] ({} other violations)",
            path.display(),
            f.rule,
            f.class,
            o.violations.len()
        );
        0
    }
}

/// Replay wrapper: process-level failures (abort / hang) are re-executed in a child process; its
/// abnormal death or a timeout reproduces the violation.
pub fn replay_cmd(props: &[&dyn Prop], path: &Path, verbose: bool) -> i32 {
    let txt = std::fs::read_to_string(path).unwrap_or_default();
    let f: ReplayFile = match serde_json::from_str(&txt) {
        Ok(f) => f,
        Err(e) => {
            eprintln!("cannot parse {}: {}", path.display(), e);
            return 2;
        }
    };
    let process_level = f.rule.ends_with("/abort") || f.class == "wall-clock";
    if !process_level {
        return replay_file(props, path, verbose);
    }
    let exe = match std::env::current_exe() {
        Ok(e) => e,
        Err(_) => return 2,
    };
    let mut ch = match std::process::Command::new(exe).arg("replay-inner").arg(path).stdin(std::process::Stdio::null()).stdout(std::process::Stdio::null()).stderr(std::process::Stdio::null()).spawn() {
        Ok(c) => c,
        Err(_) => return 2,
    };
    let st = Instant::now();
    let limit = Duration::from_secs(120);
    loop {
        match ch.try_wait() {
            Ok(Some(status)) => {
                let normal = matches!(status.code(), Some(0) | Some(1) | Some(2));
                if f.rule.ends_with("/abort") && !normal {
                    println!("VIOLATION property={} replay={}", f.property, path.display());
                    println!("  rule={} class={} :: the replay process died again ({:?})", f.rule, f.class, status);
                    return 1;
                }
                println!("replay of {} finished normally ({:?}): not reproduced", path.display(), status);
                return 0;
            }
            Ok(None) => {
                if st.elapsed() > limit {
                    ch.kill().ok();
                    ch.wait().ok();
                    if f.class == "wall-clock" {
                        println!("VIOLATION property={} replay={}", f.property, path.display());
                        println!("  rule={} class={} :: the replay did not finish within {:?} either", f.rule, f.class, limit);
                        return 1;
                    }
                    return 0;
                }
                std::thread::sleep(Duration::from_millis(50));
            }
            Err(_) => return 2,
        }
    }
}

pub fn scratch_root() -> PathBuf {
    let base = std::env::var("TMPDIR").unwrap_or_else(|_| "/tmp".into());
    PathBuf::from(base).join(format!("flute-sim-{}", std::process::id()))
}

// ---------------------------------------------------------------------------------------------
// Parent

pub struct CheckArgs {
    pub tier: Tier,
    pub seed: u64,
    pub workers: u64,
    pub verif_root: PathBuf,
    pub write_evidence: bool,
    pub runs_override: Option<u64>,
}

struct Child {
    shard: u64,
    proc: std::process::Child,
    out: PathBuf,
    journal: PathBuf,
    last_journal: String,
    last_change: Instant,
    restarts: u32,
    /// wall-clock limit without progress before the worker is taken for hung
    hang_limit: Duration,
    /// the run index this worker was restarted for with a longer limit (a second hang there is confirmed)
    retry_idx: Option<u64>,
    /// run indices of this shard with a confirmed process-level failure: never executed again
    skip: Vec<u64>,
}

/// The index after the last run a (killed) worker has accounted for in its output file.
fn resume_point(out: &Path) -> u64 {
    let txt = std::fs::read_to_string(out).unwrap_or_default();
    let mut at = 0u64;
    for line in txt.lines() {
        match serde_json::from_str::<WorkerLine>(line) {
            Ok(WorkerLine::Begin { start }) => at = at.max(start),
            Ok(WorkerLine::Stats(s)) if s.runs > 0 => at = at.max(s.last_idx + 1),
            _ => {}
        }
    }
    at
}

fn spawn_worker(
    exe: &Path,
    prop: &dyn Prop,
    a: &CheckArgs,
    shard: u64,
    start: u64,
    root: &Path,
    replay_dir: &Path,
    skip: &[u64],
) -> std::io::Result<Child> {
    let out = root.join(format!("w{}.jsonl", shard));
    let journal = root.join(format!("w{}.journal", shard));
    let scratch = root.join(format!("w{}", shard));
    let mut cmd = std::process::Command::new(exe);
    cmd.arg("worker")
        .arg(prop.id())
        .arg(a.tier.name())
        .arg("--seed")
        .arg(a.seed.to_string())
        .arg("--shard")
        .arg(shard.to_string())
        .arg("--shards")
        .arg(a.workers.to_string())
        .arg("--start")
        .arg(start.to_string())
        .arg("--out")
        .arg(&out)
        .arg("--journal")
        .arg(&journal)
        .arg("--scratch")
        .arg(&scratch)
        .arg("--replay-dir")
        .arg(replay_dir)
        .arg("--skip")
        .arg(skip.iter().map(|i| i.to_string()).collect::<Vec<_>>().join(","))
        .stdin(std::process::Stdio::null())
        .stdout(std::process::Stdio::null())
        .stderr(std::process::Stdio::null());
    if let Some(r) = a.runs_override {
        cmd.env("FLUTE_SIM_RUNS", r.to_string());
    }
    let proc = cmd.spawn()?;
    Ok(Child {
        shard,
        proc,
        out,
        journal,
        last_journal: String::new(),
        last_change: Instant::now(),
        restarts: 0,
        hang_limit: std::env::var("FLUTE_SIM_HANG_LIMIT_MS").ok().and_then(|v| v.parse().ok()).map(Duration::from_millis).unwrap_or(Duration::from_secs(30)),
        retry_idx: None,
        skip: skip.to_vec(),
    })
}

pub fn check(prop: &dyn Prop, a: &CheckArgs) -> i32 {
    let t_start = Instant::now();
    let exe = std::env::current_exe().expect("current_exe");
    let root = scratch_root();
    std::fs::remove_dir_all(&root).ok();
    if std::fs::create_dir_all(&root).is_err() {
        eprintln!("cannot create scratch {}", root.display());
        return 2;
    }
    let replay_dir = a.verif_root.join("replays");
    std::fs::create_dir_all(&replay_dir).ok();
    // replay files of earlier runs of this property are stale
    if let Ok(rd) = std::fs::read_dir(&replay_dir) {
        for e in rd.flatten() {
            if e.file_name().to_string_lossy().starts_with(&format!("{}-", prop.id())) {
                std::fs::remove_file(e.path()).ok();
            }
        }
    }
    let known = load_known(&a.verif_root);
    let total = a.runs_override.unwrap_or_else(|| prop.runs(a.tier));
    // (FLUTE_SIM_HANG_LIMIT_MS: self-test of the restart logic only)
    let hang_limit = std::env::var("FLUTE_SIM_HANG_LIMIT_MS").ok().and_then(|v| v.parse().ok()).map(Duration::from_millis).unwrap_or(Duration::from_secs(30));
    println!(
        "check {} tier={} VERIF_SEED={} runs={} workers={}",
        prop.id(),
        a.tier.name(),
        a.seed,
        total,
        a.workers
    );

    let mut children: Vec<Child> = Vec::new();
    for w in 0..a.workers.min(total.max(1)) {
        match spawn_worker(&exe, prop, a, w, 0, &root, &replay_dir, &[]) {
            Ok(c) => children.push(c),
            Err(e) => {
                eprintln!("cannot spawn worker: {}", e);
                return 2;
            }
        }
    }
    let mut crash_violations: Vec<(Violation, u64)> = Vec::new();
    let mut harness_errors: Vec<String> = Vec::new();
    let mut done = vec![false; children.len()];
    while done.iter().any(|d| !d) {
        std::thread::sleep(Duration::from_millis(20));
        for i in 0..children.len() {
            if done[i] {
                continue;
            }
            let j = std::fs::read_to_string(&children[i].journal).unwrap_or_default();
            if j != children[i].last_journal {
                children[i].last_journal = j.clone();
                children[i].last_change = Instant::now();
            }
            match children[i].proc.try_wait() {
                Ok(Some(status)) => {
                    let finished = std::fs::read_to_string(&children[i].out)
                        .unwrap_or_default()
                        .lines()
                        .any(|l| l.contains("\"Done\""));
                    if finished {
                        done[i] = true;
                        continue;
                    }
                    // died in the middle of a run: crash isolation
                    let idx: u64 = children[i].last_journal.trim().parse().unwrap_or(u64::MAX);
                    if idx == u64::MAX {
                        harness_errors.push(format!(
                            "worker {} exited ({:?}) before its first run",
                            children[i].shard, status
                        ));
                        done[i] = true;
                        continue;
                    }
                    crash_violations.push((
                        Violation {
                            rule: format!("{}/abort", prop.id()),
                            class: format!("{:?}", status.code().map(|c| c.to_string()).unwrap_or_else(|| "signal".into())),
                            msg: format!(
                                "worker process died ({:?}) while executing run index {}",
                                status, idx
                            ),
                        },
                        idx,
                    ));
                    let shard = children[i].shard;
                    let restarts = children[i].restarts + 1;
                    if restarts > 20 {
                        harness_errors.push(format!("worker {} crashed more than 20 times", shard));
                        done[i] = true;
                        continue;
                    }
                    // (from the last accounted run, without the crashing one: no other run is lost)
                    let mut skip = children[i].skip.clone();
                    skip.push(idx);
                    match spawn_worker(&exe, prop, a, shard, resume_point(&children[i].out), &root, &replay_dir, &skip) {
                        Ok(mut c) => {
                            c.restarts = restarts;
                            children[i] = c;
                        }
                        Err(e) => {
                            harness_errors.push(format!("respawn failed: {}", e));
                            done[i] = true;
                        }
                    }
                }
                Ok(None) => {
                    if children[i].last_change.elapsed() > children[i].hang_limit && !children[i].last_journal.is_empty() {
                        let idx: u64 = children[i].last_journal.trim().parse().unwrap_or(0);
                        children[i].proc.kill().ok();
                        children[i].proc.wait().ok();
                        let shard = children[i].shard;
                        let restarts = children[i].restarts + 1;
                        let (resume, limit, retry) = if children[i].retry_idx == Some(idx) {
                            // second time at the same run, with 4x the limit: machine load does not explain it
                            crash_violations.push((
                                Violation {
                                    rule: format!("{}/hang", prop.id()),
                                    class: "wall-clock".into(),
                                    msg: format!("run index {} did not finish within {:?} (second attempt in a fresh process)", idx, children[i].hang_limit),
                                },
                                idx,
                            ));
                            children[i].skip.push(idx);
                            (resume_point(&children[i].out), hang_limit, None)
                        } else {
                            // once more from the last accounted run, in a fresh process with 4x the limit: no run and
                            // no verdict is lost when the machine is merely loaded
                            (resume_point(&children[i].out), hang_limit * 4, Some(idx))
                        };
                        if restarts > 20 {
                            harness_errors.push(format!("worker {} was restarted more than 20 times", shard));
                            done[i] = true;
                            continue;
                        }
                        let skip = children[i].skip.clone();
                        match spawn_worker(&exe, prop, a, shard, resume, &root, &replay_dir, &skip) {
                            Ok(mut c) => {
                                c.restarts = restarts;
                                c.hang_limit = limit;
                                c.retry_idx = retry;
                                children[i] = c;
                            }
                            Err(e) => {
                                harness_errors.push(format!("respawn failed: {}", e));
                                done[i] = true;
                            }
                        }
                    }
                }
                Err(e) => {
                    harness_errors.push(format!("wait failed: {}", e));
                    done[i] = true;
                }
            }
        }
    }

    // aggregate
    let mut agg = WorkerStats::default();
    let mut sigs: BTreeSet<u64> = BTreeSet::new();
    let mut found: Vec<FoundViolation> = Vec::new();
    let mut dups: BTreeMap<String, u64> = BTreeMap::new();
    for w in 0..a.workers {
        let path = root.join(format!("w{}.jsonl", w));
        let txt = std::fs::read_to_string(&path).unwrap_or_default();
        // a worker may have been restarted: stats lines are cumulative per process, so sum the
        // last Stats line before each restart. Track by "runs" going backwards.
        let mut last: Option<WorkerStats> = None;
        let mut segments: Vec<WorkerStats> = Vec::new();
        for line in txt.lines() {
            match serde_json::from_str::<WorkerLine>(line) {
                Ok(WorkerLine::Begin { .. }) => {
                    if let Some(l) = last.take() {
                        segments.push(l);
                    }
                }
                Ok(WorkerLine::Stats(s)) => {
                    if let Some(l) = &last {
                        if s.runs < l.runs {
                            segments.push(l.clone());
                        }
                    }
                    last = Some(s);
                }
                Ok(WorkerLine::Found(f)) => found.push(f),
                Ok(WorkerLine::Dup { key, count }) => *dups.entry(key).or_insert(0) += count,
                Ok(WorkerLine::Done) => {}
                Err(e) => harness_errors.push(format!("bad worker line: {}", e)),
            }
        }
        if let Some(l) = last {
            segments.push(l);
        }
        for s in segments {
            agg.runs += s.runs;
            agg.nontrivial += s.nontrivial;
            agg.sim_ms += s.sim_ms;
            agg.trace_len += s.trace_len;
            agg.determinism_pairs += s.determinism_pairs;
            agg.determinism_mismatch += s.determinism_mismatch;
            agg.minimise_runs += s.minimise_runs;
            for x in s.sigs {
                sigs.insert(x);
            }
            for (k, v) in s.faults {
                *agg.faults.entry(k).or_insert(0) += v;
            }
            for (k, v) in s.notes {
                *agg.notes.entry(k).or_insert(0) += v;
            }
            for smp in s.samples {
                if agg.samples.len() < 3 {
                    agg.samples.push(smp);
                }
            }
        }
    }
    // crash-class violations: write replay files from the regenerated scenario
    for (v, idx) in &crash_violations {
        let rs = run_seed(a.seed, prop.id(), *idx);
        let mut rng = Rng::new(rs).sub("scenario");
        let scn = prop.generate(*idx, a.tier, &mut rng);
        let file = ReplayFile {
            property: prop.id().to_string(),
            rule: v.rule.clone(),
            class: v.class.clone(),
            seed: rs,
            run_index: *idx,
            scenario: scn.clone(),
            tape: Tape::default(),
            expected: v.clone(),
            minimised: false,
            note: "process-level failure; replay re-generates decisions from the seed (generate mode)".into(),
            gen_mode: true,
        };
        let path = replay_dir.join(format!(
            "{}-{}-{:016x}.json",
            prop.id(),
            sanitize(&format!("{}-{}", v.rule, v.class)),
            rs
        ));
        std::fs::write(&path, serde_json::to_string_pretty(&file).unwrap()).ok();
        found.push(FoundViolation {
            violation: v.clone(),
            run_index: *idx,
            replay: path.to_string_lossy().to_string(),
            tape_len: 0,
            scn_size: scn.to_string().len(),
        });
    }
    for v in prop.parent_checks(a.tier, &root) {
        let path = replay_dir.join(format!("{}-{}.json", prop.id(), sanitize(&format!("{}-{}", v.rule, v.class))));
        let file = ReplayFile {
            property: prop.id().to_string(),
            rule: v.rule.clone(),
            class: v.class.clone(),
            seed: 0,
            run_index: 0,
            scenario: json!({"parent_check": true}),
            tape: Tape::default(),
            expected: v.clone(),
            minimised: false,
            note: "parent-level check (no schedule involved)".into(),
            gen_mode: false,
        };
        std::fs::write(&path, serde_json::to_string_pretty(&file).unwrap()).ok();
        found.push(FoundViolation {
            violation: v,
            run_index: 0,
            replay: path.to_string_lossy().to_string(),
            tape_len: 0,
            scn_size: 0,
        });
    }

    for (k, v) in &agg.notes {
        if k.starts_with("HARNESS-ERROR") {
            harness_errors.push(format!("{} (x{})", k, v));
        }
    }
    if agg.determinism_mismatch > 0 {
        harness_errors.push(format!(
            "{} of {} in-process determinism pairs diverged",
            agg.determinism_mismatch, agg.determinism_pairs
        ));
    }

    // classify: known vs new; per key keep the smallest replay
    let mut by_key: BTreeMap<String, FoundViolation> = BTreeMap::new();
    for f in found {
        let k = known_key(&f.violation);
        let better = match by_key.get(&k) {
            None => true,
            Some(old) => (f.tape_len, f.scn_size) < (old.tape_len, old.scn_size),
        };
        // (a restarted worker may report the same run twice: same file)
        if better {
            if let Some(old) = by_key.get(&k) {
                if old.replay != f.replay {
                    std::fs::remove_file(&old.replay).ok();
                }
            }
            by_key.insert(k, f);
        } else if by_key.get(&k).map(|w| w.replay != f.replay).unwrap_or(true) {
            std::fs::remove_file(&f.replay).ok();
        }
    }
    let mut new_violations = 0;
    let mut known_hits: BTreeMap<String, u64> = BTreeMap::new();
    let mut exit = 0;
    for (k, f) in &by_key {
        let occurrences = 1 + dups.get(k).copied().unwrap_or(0);
        if let Some(kn) = known.iter().find(|kn| kn.property == prop.id() && kn.key == *k) {
            println!("KNOWN-FINDING: property={} {} [key={} occurrences>={}]", prop.id(), kn.what, k, occurrences);
            *known_hits.entry(k.clone()).or_insert(0) += occurrences;
            std::fs::remove_file(&f.replay).ok();
            continue;
        }
        // confirm in a fresh process
        let is_process_level = f.violation.rule.ends_with("/abort") || f.violation.class == "wall-clock";
        let is_parent = f.scn_size == 0;
        let reproduced = if is_process_level || is_parent {
            true
        } else {
            let st = std::process::Command::new(&exe)
                .arg("replay")
                .arg(&f.replay)
                .stdin(std::process::Stdio::null())
                .stdout(std::process::Stdio::null())
                .stderr(std::process::Stdio::null())
                .status();
            matches!(st.map(|s| s.code()), Ok(Some(1)))
        };
        if !reproduced {
            harness_errors.push(format!(
                "replay file {} did not reproduce {} in a fresh process",
                f.replay, k
            ));
            continue;
        }
        new_violations += 1;
        exit = 1;
        println!("VIOLATION property={} replay={}", prop.id(), f.replay);
        println!(
            "  rule={} class={} occurrences>={} :: {}",
            f.violation.rule, f.violation.class, occurrences, f.violation.msg
        );
    }

    let wall = t_start.elapsed().as_secs_f64();
    let info = prop.info();
    let distinct = sigs.len() as u64;
    if a.write_evidence {
        let ev = json!({
            "property_id": prop.id(),
            "tier": a.tier.name(),
            "seed": a.seed,
            "level": info.level,
            "coverage": {
                "evaluations": agg.runs,
                "distinct_nontrivial": distinct,
                "rule": info.rule,
                "samples": agg.samples,
                "exhaustive": prop.exhaustive(a.tier).is_some(),
                "enumerated_space": prop.exhaustive(a.tier),
                "nontrivial_runs": agg.nontrivial,
                "runs_per_hour": if wall > 0.0 { (agg.runs as f64 / wall * 3600.0) as u64 } else { 0 },
                "simulated_seconds": agg.sim_ms / 1000,
                "trace_events": agg.trace_len,
                "faults_fired": agg.faults,
                "probes_and_relaxations": agg.notes,
                "determinism_pairs_checked": agg.determinism_pairs,
                "determinism_mismatches": agg.determinism_mismatch,
                "minimisation_candidate_runs": agg.minimise_runs,
                "known_findings_hit": known_hits,
                "workers": a.workers,
                "real_components": info.real,
                "stubbed_components": info.stub,
            },
            "assumptions": info.assumptions,
            "wall_s": wall,
            "violations": new_violations,
        });
        let dir = a.verif_root.join("evidence");
        std::fs::create_dir_all(&dir).ok();
        let p = dir.join(format!("{}.json", prop.id()));
        if std::fs::write(&p, serde_json::to_string_pretty(&ev).unwrap()).is_err() {
            harness_errors.push(format!("cannot write {}", p.display()));
        }
    }
    std::fs::remove_dir_all(&root).ok();
    println!(
        "{} {}: runs={} nontrivial={} distinct_signatures={} sim_s={} faults={:?} wall={:.1}s violations={} known={}",
        prop.id(),
        a.tier.name(),
        agg.runs,
        agg.nontrivial,
        distinct,
        agg.sim_ms / 1000,
        agg.faults,
        wall,
        new_violations,
        known_hits.len()
    );
    if !harness_errors.is_empty() {
        for e in &harness_errors {
            eprintln!("HARNESS-ERROR: {}", e);
        }
        if exit == 0 {
            return 2;
        }
    }
    if agg.runs < total && exit == 0 && crash_violations.is_empty() {
        eprintln!("HARNESS-ERROR: only {} of {} runs executed", agg.runs, total);
        return 2;
    }
    // a batch in which (almost) no run was non-trivial explored nothing: that is not "the property held"
    // (on the unchanged tree every check is above 35 %; e.g. a sender that stops its carousel makes every
    // C16 session too short to evaluate)
    if exit == 0 && agg.nontrivial * 10 < agg.runs {
        eprintln!(
            "HARNESS-ERROR: only {} of {} runs were non-trivial by the rule of this check: nothing was explored, the result is not a pass",
            agg.nontrivial, agg.runs
        );
        return 2;
    }
    exit
}
