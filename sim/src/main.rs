#![allow(dead_code, clippy::too_many_arguments, clippy::type_complexity)]
mod alloc;
mod channel;
mod ctx;
mod fdtview;
mod engine;
mod monitor;
mod props;
mod rdrv;
mod rng;
mod sdrv;
mod spec;
mod wire;
mod xml;

use engine::*;
use std::path::PathBuf;

#[global_allocator]
static GLOBAL: alloc::Counting = alloc::Counting;

fn arg_after(args: &[String], name: &str) -> Option<String> {
    args.iter()
        .position(|a| a == name)
        .and_then(|i| args.get(i + 1).cloned())
}

fn tier_of(s: &str) -> Option<Tier> {
    match s {
        "quick" => Some(Tier::Quick),
        "thorough" => Some(Tier::Thorough),
        _ => None,
    }
}

fn verif_root() -> PathBuf {
    if let Ok(r) = std::env::var("VERIF_ROOT") {
        return PathBuf::from(r);
    }
    // the binary lives in <root>/sim/target/release/
    let exe = std::env::current_exe().unwrap();
    let mut p = exe.clone();
    for _ in 0..4 {
        p.pop();
    }
    if p.join("properties.jsonl").exists() {
        return p;
    }
    PathBuf::from("/verif")
}

fn usage() -> ! {
    eprintln!(
        "usage: flute-sim check <ID> <quick|thorough> | replay <file> [-v] | selftest determinism <ID> [n] | list"
    );
    std::process::exit(2);
}

fn main() {
    let args: Vec<String> = std::env::args().collect();
    if args.len() < 2 {
        usage();
    }
    let all = props::all();
    let props: Vec<&dyn Prop> = all.iter().map(|b| b.as_ref()).collect();
    let find = |id: &str| -> &dyn Prop {
        match props.iter().find(|p| p.id() == id) {
            Some(p) => *p,
            None => {
                eprintln!("unknown property {}", id);
                std::process::exit(2);
            }
        }
    };
    let seed: u64 = arg_after(&args, "--seed")
        .or_else(|| std::env::var("VERIF_SEED").ok())
        .and_then(|s| s.trim().parse().ok())
        .unwrap_or(DEFAULT_SEED);
    match args[1].as_str() {
        "list" => {
            for p in &props {
                println!("{} {} {}", p.id(), p.runs(Tier::Quick), p.runs(Tier::Thorough));
            }
        }
        "check" => {
            if args.len() < 4 {
                usage();
            }
            let prop = find(&args[2]);
            let tier = tier_of(&args[3]).unwrap_or_else(|| usage());
            let workers = arg_after(&args, "--workers")
                .and_then(|s| s.parse().ok())
                .unwrap_or_else(|| {
                    std::thread::available_parallelism()
                        .map(|n| n.get() as u64)
                        .unwrap_or(4)
                });
            let a = CheckArgs {
                tier,
                seed,
                workers,
                verif_root: verif_root(),
                write_evidence: !args.iter().any(|a| a == "--no-evidence"),
                runs_override: arg_after(&args, "--runs").and_then(|s| s.parse().ok()),
            };
            std::process::exit(check(prop, &a));
        }
        "worker" => {
            let prop = find(&args[2]);
            let tier = tier_of(&args[3]).unwrap_or_else(|| usage());
            let g = |n: &str| arg_after(&args, n).unwrap_or_else(|| usage());
            let a = WorkerArgs {
                tier,
                seed,
                shard: g("--shard").parse().unwrap(),
                shards: g("--shards").parse().unwrap(),
                start: g("--start").parse().unwrap(),
                out: PathBuf::from(g("--out")),
                journal: PathBuf::from(g("--journal")),
                scratch: PathBuf::from(g("--scratch")),
                replay_dir: PathBuf::from(g("--replay-dir")),
                skip: arg_after(&args, "--skip").unwrap_or_default().split(',').filter_map(|x| x.parse().ok()).collect(),
            };
            worker(prop, &a);
        }
        "one" => {
            // execute a single run index (used to confirm a suspected hang in a fresh process)
            let prop = find(&args[2]);
            let tier = tier_of(&args[3]).unwrap_or_else(|| usage());
            let idx: u64 = arg_after(&args, "--index").unwrap().parse().unwrap();
            let scratch = PathBuf::from(arg_after(&args, "--scratch").unwrap_or("/tmp/flute-sim-one".into()));
            std::fs::create_dir_all(&scratch).ok();
            install_panic_hook();
            let rs = run_seed(seed, prop.id(), idx);
            let mut rng = rng::Rng::new(rs).sub("scenario");
            let scn = prop.generate(idx, tier, &mut rng);
            let verbose = args.iter().any(|a| a == "-v");
            if verbose {
                println!("{}", serde_json::to_string_pretty(&scn).unwrap());
            }
            let o = execute(prop, &scn, rs, None, &scratch, verbose);
            if verbose {
                if let Some(l) = &o.log {
                    for e in l {
                        println!("  {}", e);
                    }
                }
                println!("faults={:?} notes={:?} nontrivial={}", o.faults, o.notes, o.nontrivial);
            }
            for v in &o.violations {
                println!("violation {} [{}]: {}", v.rule, v.class, v.msg);
            }
            println!("trace_hash={:016x} sig={:016x}", o.trace_hash, o.sig_hash);
        }
        "replay" => {
            if args.len() < 3 {
                usage();
            }
            let verbose = args.iter().any(|a| a == "-v");
            std::process::exit(replay_cmd(&props, &PathBuf::from(&args[2]), verbose));
        }
        "replay-inner" => {
            if args.len() < 3 {
                usage();
            }
            std::process::exit(replay_file(&props, &PathBuf::from(&args[2]), false));
        }
        "selftest" => {
            if args.len() < 4 || args[2] != "determinism" {
                usage();
            }
            let prop = find(&args[3]);
            let n: u64 = args.get(4).and_then(|s| s.parse().ok()).unwrap_or(200);
            let shard: u64 = arg_after(&args, "--shard").and_then(|s| s.parse().ok()).unwrap_or(0);
            let shards: u64 = arg_after(&args, "--shards").and_then(|s| s.parse().ok()).unwrap_or(1);
            install_panic_hook();
            let scratch = scratch_root().join("det");
            std::fs::create_dir_all(&scratch).ok();
            // prints "idx hash" lines; the wrapper script diffs the outputs of independent processes
            let mut i = shard;
            while i < n {
                let rs = run_seed(seed, prop.id(), i);
                let mut rng = rng::Rng::new(rs).sub("scenario");
                let scn = prop.generate(i, Tier::Quick, &mut rng);
                let o = execute(prop, &scn, rs, None, &scratch, false);
                println!("{} {:016x} {:016x} {}", i, o.trace_hash, o.sig_hash, o.violations.len());
                i += shards;
            }
            std::fs::remove_dir_all(scratch_root()).ok();
        }
        _ => usage(),
    }
}
