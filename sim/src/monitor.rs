//! Monitoring implementations of flute's caller-supplied traits: object writer builder / writer
//! (with the C09 typestate automaton run online and optional fault injection), multi-receiver
//! listener, sender subscriber.

use crate::ctx::Ctx;
use flute::core::UDPEndpoint;
use flute::receiver::writer::{
    ObjectMetadata, ObjectWriter, ObjectWriterBuilder, ObjectWriterBuilderResult,
};
use flute::receiver::{MultiReceiverListener, ReceiverEndpoint};
use flute::sender::{Event, Subscriber};
use std::cell::RefCell;
use std::rc::Rc;
use std::sync::atomic::{AtomicU64, Ordering};
use std::sync::{Arc, Mutex};
use std::time::SystemTime;

#[derive(Clone, Copy, Debug, PartialEq, Eq)]
pub enum WKind {
    Open,
    OpenFailed,
    Write,
    WriteFailed,
    Complete,
    Error,
    Interrupted,
}

#[derive(Clone, Debug)]
pub struct WEvent {
    pub seq: u64,
    pub kind: WKind,
    pub len: usize,
    pub sbn: u32,
}

#[derive(Clone, Copy, Debug, PartialEq, Eq)]
pub enum Terminal {
    Complete,
    Error,
    Interrupted,
}

#[derive(Debug)]
pub struct WriterRec {
    pub id: usize,
    pub created_seq: u64,
    pub endpoint: UDPEndpoint,
    pub tsi: u64,
    pub toi: u128,
    pub meta: ObjectMetadata,
    pub now_at_create: SystemTime,
    pub events: Vec<WEvent>,
    pub data: Vec<u8>,
    pub opened: bool,
    pub open_failed: bool,
    pub terminal: Option<Terminal>,
    pub write_failed: bool,
    /// protocol violations detected online by the typestate automaton
    pub protocol_errors: Vec<String>,
    pub md5_check: bool,
}

#[derive(Debug, Default, Clone, PartialEq, serde::Serialize, serde::Deserialize)]
pub struct WriterFaults {
    pub p_open_fail: f64,
    pub p_write_fail: f64,
    pub p_abort: f64,
    pub p_already: f64,
    /// deterministic: the n-th write call (0-based, counted over all writers) fails
    pub fail_write_at: Option<u64>,
    /// deterministic: the n-th open call fails
    pub fail_open_at: Option<u64>,
}

#[derive(Debug)]
pub struct FdtRec {
    pub seq: u64,
    pub endpoint: UDPEndpoint,
    pub tsi: u64,
    pub xml: String,
    pub expires: SystemTime,
    pub now: SystemTime,
    pub ext_time: Option<SystemTime>,
}

#[derive(Debug, Default)]
pub struct MonitorState {
    pub write_calls: u64,
    pub open_calls: u64,
    pub writers: Vec<WriterRec>,
    pub fdts: Vec<FdtRec>,
    pub cache_updates: Vec<(u64, u64, u128, ObjectMetadata)>,
    pub builder_aborts: u64,
    pub builder_already: u64,
}

pub struct Monitor {
    pub state: Rc<RefCell<MonitorState>>,
    ctx: Ctx,
    pub md5_check: bool,
    pub faults: WriterFaults,
    pub label: String,
    /// keep written bytes (off for memory-bound scenarios)
    pub keep_data: bool,
    /// real builder to forward to (e.g. the filesystem writer), if any
    pub inner: Option<Rc<dyn ObjectWriterBuilder>>,
}

impl Monitor {
    pub fn with_inner(
        ctx: &Ctx,
        md5_check: bool,
        faults: WriterFaults,
        label: &str,
        inner: Rc<dyn ObjectWriterBuilder>,
    ) -> Rc<Monitor> {
        Rc::new(Monitor {
            state: Rc::new(RefCell::new(MonitorState::default())),
            ctx: ctx.clone(),
            md5_check,
            faults,
            label: label.to_string(),
            keep_data: true,
            inner: Some(inner),
        })
    }

    pub fn new_nodata(ctx: &Ctx, md5_check: bool, label: &str) -> Rc<Monitor> {
        Rc::new(Monitor {
            state: Rc::new(RefCell::new(MonitorState::default())),
            ctx: ctx.clone(),
            md5_check,
            faults: WriterFaults::default(),
            label: label.to_string(),
            keep_data: false,
            inner: None,
        })
    }

    pub fn new(ctx: &Ctx, md5_check: bool, faults: WriterFaults, label: &str) -> Rc<Monitor> {
        Rc::new(Monitor {
            state: Rc::new(RefCell::new(MonitorState::default())),
            ctx: ctx.clone(),
            md5_check,
            faults,
            label: label.to_string(),
            keep_data: true,
            inner: None,
        })
    }
}

struct MonWriter {
    inner: Option<Box<dyn ObjectWriter>>,
    id: usize,
    state: Rc<RefCell<MonitorState>>,
    ctx: Ctx,
    md5_check: bool,
    p_open_fail: f64,
    p_write_fail: f64,
    fail_write_at: Option<u64>,
    fail_open_at: Option<u64>,
    label: String,
    keep_data: bool,
}

impl ObjectWriterBuilder for Monitor {
    fn new_object_writer(
        &self,
        endpoint: &UDPEndpoint,
        tsi: &u64,
        toi: &u128,
        meta: &ObjectMetadata,
        now: SystemTime,
    ) -> ObjectWriterBuilderResult {
        let seq = self.ctx.borrow().next_seq();
        {
            let mut c = self.ctx.borrow_mut();
            c.trace(&format!(
                "{} new_writer tsi={} toi={} cl={} len={:?} tl={:?}",
                self.label, tsi, toi, meta.content_location, meta.content_length, meta.transfer_length
            ));
            c.sig("W:new");
        }
        if self.faults.p_abort > 0.0 {
            if self
                .ctx
                .borrow_mut()
                .fault(&format!("builder-abort/{}", self.label), self.faults.p_abort)
            {
                self.state.borrow_mut().builder_aborts += 1;
                self.ctx.borrow_mut().sig("W:abort");
                return ObjectWriterBuilderResult::Abort;
            }
        }
        if self.faults.p_already > 0.0 {
            if self.ctx.borrow_mut().fault(
                &format!("builder-already/{}", self.label),
                self.faults.p_already,
            ) {
                self.state.borrow_mut().builder_already += 1;
                self.ctx.borrow_mut().sig("W:already");
                return ObjectWriterBuilderResult::ObjectAlreadyReceived;
            }
        }
        let inner_writer = match &self.inner {
            None => None,
            Some(b) => match b.new_object_writer(endpoint, tsi, toi, meta, now) {
                ObjectWriterBuilderResult::StoreObject(w) => Some(w),
                ObjectWriterBuilderResult::ObjectAlreadyReceived => {
                    return ObjectWriterBuilderResult::ObjectAlreadyReceived
                }
                ObjectWriterBuilderResult::Abort => return ObjectWriterBuilderResult::Abort,
            },
        };
        let mut st = self.state.borrow_mut();
        let id = st.writers.len();
        st.writers.push(WriterRec {
            id,
            created_seq: seq,
            endpoint: endpoint.clone(),
            tsi: *tsi,
            toi: *toi,
            meta: meta.clone(),
            now_at_create: now,
            events: Vec::new(),
            data: Vec::new(),
            opened: false,
            open_failed: false,
            terminal: None,
            write_failed: false,
            protocol_errors: Vec::new(),
            md5_check: self.md5_check,
        });
        ObjectWriterBuilderResult::StoreObject(Box::new(MonWriter {
            inner: inner_writer,
            id,
            state: self.state.clone(),
            ctx: self.ctx.clone(),
            md5_check: self.md5_check,
            p_open_fail: self.faults.p_open_fail,
            p_write_fail: self.faults.p_write_fail,
            fail_write_at: self.faults.fail_write_at,
            fail_open_at: self.faults.fail_open_at,
            label: self.label.clone(),
            keep_data: self.keep_data,
        }))
    }

    fn update_cache_control(
        &self,
        _endpoint: &UDPEndpoint,
        tsi: &u64,
        toi: &u128,
        meta: &ObjectMetadata,
        _now: SystemTime,
    ) {
        let seq = self.ctx.borrow().next_seq();
        self.state
            .borrow_mut()
            .cache_updates
            .push((seq, *tsi, *toi, meta.clone()));
    }

    fn fdt_received(
        &self,
        endpoint: &UDPEndpoint,
        tsi: &u64,
        fdt_xml: &str,
        expires: SystemTime,
        _meta: &ObjectMetadata,
        _transfer_duration: std::time::Duration,
        now: SystemTime,
        ext_time: Option<SystemTime>,
    ) {
        let seq = self.ctx.borrow().next_seq();
        {
            let mut c = self.ctx.borrow_mut();
            c.trace_bytes(&format!("{} fdt_received tsi={}", self.label, tsi), fdt_xml.as_bytes());
            c.sig("W:fdt");
        }
        self.state.borrow_mut().fdts.push(FdtRec {
            seq,
            endpoint: endpoint.clone(),
            tsi: *tsi,
            xml: fdt_xml.to_string(),
            expires,
            now,
            ext_time,
        });
    }
}

impl MonWriter {
    fn ev(&self, kind: WKind, len: usize, sbn: u32) {
        let seq = self.ctx.borrow().next_seq();
        {
            let mut c = self.ctx.borrow_mut();
            c.trace(&format!("{} w{} {:?} len={} sbn={}", self.label, self.id, kind, len, sbn));
            c.sig(match kind {
                WKind::Open => "W:open",
                WKind::OpenFailed => "W:openfail",
                WKind::Write => "W:write",
                WKind::WriteFailed => "W:writefail",
                WKind::Complete => "W:complete",
                WKind::Error => "W:error",
                WKind::Interrupted => "W:interrupted",
            });
        }
        let mut st = self.state.borrow_mut();
        let w = &mut st.writers[self.id];
        // typestate automaton (C09)
        match kind {
            WKind::Open | WKind::OpenFailed => {
                if !w.events.is_empty() {
                    w.protocol_errors
                        .push(format!("open called after {} earlier calls", w.events.len()));
                }
            }
            _ => {
                if !w.opened && !w.open_failed {
                    w.protocol_errors.push(format!("{:?} before open", kind));
                }
                if let Some(t) = w.terminal {
                    w.protocol_errors
                        .push(format!("{:?} after terminal {:?}", kind, t));
                }
                if w.open_failed && matches!(kind, WKind::Write | WKind::WriteFailed | WKind::Complete) {
                    w.protocol_errors
                        .push(format!("{:?} although open failed", kind));
                }
                if w.write_failed && matches!(kind, WKind::Write | WKind::WriteFailed | WKind::Complete) {
                    w.protocol_errors
                        .push(format!("{:?} although an earlier write failed", kind));
                }
            }
        }
        match kind {
            WKind::Open => w.opened = true,
            WKind::OpenFailed => w.open_failed = true,
            WKind::WriteFailed => w.write_failed = true,
            WKind::Complete => {
                if w.terminal.is_none() {
                    w.terminal = Some(Terminal::Complete)
                }
            }
            WKind::Error => {
                if w.terminal.is_none() {
                    w.terminal = Some(Terminal::Error)
                }
            }
            WKind::Interrupted => {
                if w.terminal.is_none() {
                    w.terminal = Some(Terminal::Interrupted)
                }
            }
            WKind::Write => {}
        }
        w.events.push(WEvent { seq, kind, len, sbn });
    }
}

/// An injected storage failure: the error kinds a real writer forwards from the filesystem (`FluteError` wraps an
/// `io::Error`), picked deterministically from the position of the failing call. A retryable-looking kind
/// (`Interrupted`, `WouldBlock`) is still a failed call of the writer protocol.
fn injected_error(what: &str, n: u64, id: usize) -> flute::error::FluteError {
    use std::io::ErrorKind::*;
    let kinds = [Other, Interrupted, PermissionDenied, WouldBlock, TimedOut, OutOfMemory, NotFound];
    let k = kinds[((n as usize).wrapping_mul(3).wrapping_add(id)) % kinds.len()];
    flute::error::FluteError(std::io::Error::new(k, what.to_string()))
}

impl ObjectWriter for MonWriter {
    fn open(&self, _now: SystemTime) -> flute::error::Result<()> {
        let n_open = {
            let mut st = self.state.borrow_mut();
            st.open_calls += 1;
            st.open_calls - 1
        };
        if self.fail_open_at == Some(n_open) {
            self.ctx.borrow_mut().count_fault("writer-open-fail");
            self.ev(WKind::OpenFailed, 0, 0);
            return Err(injected_error("injected open failure", n_open, self.id));
        }
        let fail = self.p_open_fail > 0.0
            && self
                .ctx
                .borrow_mut()
                .fault(&format!("writer-open-fail/{}", self.label), self.p_open_fail);
        if fail {
            self.ev(WKind::OpenFailed, 0, 0);
            return Err(injected_error("injected open failure", n_open, self.id));
        }
        if let Some(w) = &self.inner {
            if let Err(e) = w.open(_now) {
                self.ev(WKind::OpenFailed, 0, 0);
                return Err(e);
            }
        }
        self.ev(WKind::Open, 0, 0);
        Ok(())
    }

    fn write(&self, sbn: u32, data: &[u8], _now: SystemTime) -> flute::error::Result<()> {
        let n_write = {
            let mut st = self.state.borrow_mut();
            st.write_calls += 1;
            st.write_calls - 1
        };
        if self.fail_write_at == Some(n_write) {
            self.ctx.borrow_mut().count_fault("writer-write-fail");
            self.ev(WKind::WriteFailed, data.len(), sbn);
            return Err(injected_error("injected write failure", n_write, self.id));
        }
        let fail = self.p_write_fail > 0.0
            && self.ctx.borrow_mut().fault(
                &format!("writer-write-fail/{}", self.label),
                self.p_write_fail,
            );
        if fail {
            self.ev(WKind::WriteFailed, data.len(), sbn);
            return Err(injected_error("injected write failure", n_write, self.id));
        }
        if let Some(w) = &self.inner {
            if let Err(e) = w.write(sbn, data, _now) {
                self.ev(WKind::WriteFailed, data.len(), sbn);
                return Err(e);
            }
        }
        self.ev(WKind::Write, data.len(), sbn);
        if self.keep_data {
            self.state.borrow_mut().writers[self.id]
                .data
                .extend_from_slice(data);
        }
        Ok(())
    }

    fn complete(&self, now: SystemTime) {
        self.ev(WKind::Complete, 0, 0);
        if let Some(w) = &self.inner {
            w.complete(now);
        }
    }

    fn error(&self, now: SystemTime) {
        self.ev(WKind::Error, 0, 0);
        if let Some(w) = &self.inner {
            w.error(now);
        }
    }

    fn interrupted(&self, now: SystemTime) {
        self.ev(WKind::Interrupted, 0, 0);
        if let Some(w) = &self.inner {
            w.interrupted(now);
        }
    }

    fn enable_md5_check(&self) -> bool {
        self.md5_check
    }
}

// ---------------------------------------------------------------------------------------------

#[derive(Debug, Clone, PartialEq)]
pub struct SessEvent {
    pub seq: u64,
    pub open: bool,
    pub key: ReceiverEndpoint,
}

pub struct Listener {
    pub events: Rc<RefCell<Vec<SessEvent>>>,
    ctx: Ctx,
}

impl Listener {
    pub fn new(ctx: &Ctx) -> (Listener, Rc<RefCell<Vec<SessEvent>>>) {
        let ev = Rc::new(RefCell::new(Vec::new()));
        (
            Listener {
                events: ev.clone(),
                ctx: ctx.clone(),
            },
            ev,
        )
    }
}

impl MultiReceiverListener for Listener {
    fn on_session_open(&self, endpoint: &ReceiverEndpoint) {
        let seq = self.ctx.borrow().next_seq();
        {
            let mut c = self.ctx.borrow_mut();
            c.trace(&format!("session_open {:?}", endpoint));
            c.sig("L:open");
        }
        self.events.borrow_mut().push(SessEvent {
            seq,
            open: true,
            key: endpoint.clone(),
        });
    }
    fn on_session_closed(&self, endpoint: &ReceiverEndpoint) {
        let seq = self.ctx.borrow().next_seq();
        {
            let mut c = self.ctx.borrow_mut();
            c.trace(&format!("session_closed {:?}", endpoint));
            c.sig("L:closed");
        }
        self.events.borrow_mut().push(SessEvent {
            seq,
            open: false,
            key: endpoint.clone(),
        });
    }
}

// ---------------------------------------------------------------------------------------------

#[derive(Debug, Clone, PartialEq)]
pub struct SubEvent {
    pub seq: u64,
    pub start: bool,
    pub toi: u128,
    pub now: SystemTime,
}

/// Sender subscriber (must be Send + Sync): sequence numbers come from the run's shared counter.
pub struct SubLog {
    pub events: Mutex<Vec<SubEvent>>,
    seq: Arc<AtomicU64>,
}

impl SubLog {
    pub fn new(seq: Arc<AtomicU64>) -> Arc<SubLog> {
        Arc::new(SubLog {
            events: Mutex::new(Vec::new()),
            seq,
        })
    }
}

impl Subscriber for SubLog {
    fn on_sender_event(&self, evt: &Event, now: SystemTime) {
        let seq = self.seq.fetch_add(1, Ordering::SeqCst);
        let (start, toi) = match evt {
            Event::StartTransfer(f) => (true, f.toi),
            Event::StopTransfer(f) => (false, f.toi),
        };
        self.events.lock().unwrap().push(SubEvent {
            seq,
            start,
            toi,
            now,
        });
    }
}

// ---------------------------------------------------------------------------------------------

/// Writer builder that keeps nothing (the harness must not hold memory that grows with traffic).
#[derive(Default)]
pub struct NullBuilder {
    pub writers: std::cell::Cell<u64>,
}
pub struct NullWriter;
impl flute::receiver::writer::ObjectWriterBuilder for NullBuilder {
    fn new_object_writer(
        &self,
        _e: &flute::core::UDPEndpoint,
        _tsi: &u64,
        _toi: &u128,
        _meta: &flute::receiver::writer::ObjectMetadata,
        _now: std::time::SystemTime,
    ) -> flute::receiver::writer::ObjectWriterBuilderResult {
        self.writers.set(self.writers.get() + 1);
        flute::receiver::writer::ObjectWriterBuilderResult::StoreObject(Box::new(NullWriter))
    }
    fn update_cache_control(&self, _e: &flute::core::UDPEndpoint, _tsi: &u64, _toi: &u128, _meta: &flute::receiver::writer::ObjectMetadata, _now: std::time::SystemTime) {}
    fn fdt_received(
        &self,
        _e: &flute::core::UDPEndpoint,
        _tsi: &u64,
        _xml: &str,
        _expires: std::time::SystemTime,
        _meta: &flute::receiver::writer::ObjectMetadata,
        _d: std::time::Duration,
        _now: std::time::SystemTime,
        _ext: Option<std::time::SystemTime>,
    ) {
    }
}
impl flute::receiver::writer::ObjectWriter for NullWriter {
    fn open(&self, _now: std::time::SystemTime) -> flute::error::Result<()> {
        Ok(())
    }
    fn write(&self, _sbn: u32, _data: &[u8], _now: std::time::SystemTime) -> flute::error::Result<()> {
        Ok(())
    }
    fn complete(&self, _now: std::time::SystemTime) {}
    fn error(&self, _now: std::time::SystemTime) {}
    fn interrupted(&self, _now: std::time::SystemTime) {}
    fn enable_md5_check(&self) -> bool {
        false
    }
}

