//! Minimal strict XML reader (own code, independent of quick-xml): prolog, elements, attributes,
//! the five predefined entities and numeric character references, text. Rejects anything that is
//! not well-formed. Namespace prefixes are kept verbatim; every prefix in use must be declared in scope.

#[derive(Clone, Debug, PartialEq)]
pub struct Element {
    pub name: String,
    pub attrs: Vec<(String, String)>,
    pub children: Vec<Element>,
    pub text: String,
}

impl Element {
    pub fn attr(&self, name: &str) -> Option<&str> {
        self.attrs
            .iter()
            .find(|(k, _)| k == name)
            .map(|(_, v)| v.as_str())
    }
    /// attribute by local name (prefix ignored)
    pub fn attr_local(&self, local: &str) -> Option<&str> {
        self.attrs
            .iter()
            .find(|(k, _)| k == local || k.rsplit(':').next() == Some(local))
            .map(|(_, v)| v.as_str())
    }
    pub fn local(&self) -> &str {
        self.name.rsplit(':').next().unwrap_or(&self.name)
    }
    pub fn children_local<'a>(&'a self, local: &'a str) -> impl Iterator<Item = &'a Element> + 'a {
        self.children.iter().filter(move |c| c.local() == local)
    }
}

struct P<'a> {
    s: &'a [u8],
    i: usize,
}

fn is_name_start(c: u8) -> bool {
    c.is_ascii_alphabetic() || c == b'_' || c == b':' || c >= 0x80
}
fn is_name_char(c: u8) -> bool {
    is_name_start(c) || c.is_ascii_digit() || c == b'-' || c == b'.'
}

impl<'a> P<'a> {
    fn peek(&self) -> Option<u8> {
        self.s.get(self.i).copied()
    }
    fn starts(&self, t: &str) -> bool {
        self.s[self.i..].starts_with(t.as_bytes())
    }
    fn ws(&mut self) {
        while let Some(c) = self.peek() {
            if c == b' ' || c == b'\t' || c == b'\n' || c == b'\r' {
                self.i += 1;
            } else {
                break;
            }
        }
    }
    fn expect(&mut self, t: &str) -> Result<(), String> {
        if self.starts(t) {
            self.i += t.len();
            Ok(())
        } else {
            Err(format!("expected {:?} at offset {}", t, self.i))
        }
    }
    fn name(&mut self) -> Result<String, String> {
        let st = self.i;
        match self.peek() {
            Some(c) if is_name_start(c) => self.i += 1,
            _ => return Err(format!("name expected at offset {}", self.i)),
        }
        while let Some(c) = self.peek() {
            if is_name_char(c) {
                self.i += 1;
            } else {
                break;
            }
        }
        String::from_utf8(self.s[st..self.i].to_vec()).map_err(|_| "name not utf8".to_string())
    }
    fn reference(&mut self, out: &mut String) -> Result<(), String> {
        // at '&'
        let st = self.i;
        let end = self.s[self.i..]
            .iter()
            .position(|c| *c == b';')
            .ok_or_else(|| format!("unterminated reference at {}", st))?;
        let body = std::str::from_utf8(&self.s[self.i + 1..self.i + end])
            .map_err(|_| "reference not utf8".to_string())?;
        let ch = match body {
            "amp" => '&',
            "lt" => '<',
            "gt" => '>',
            "quot" => '"',
            "apos" => '\'',
            _ if body.starts_with("#x") => {
                let v = u32::from_str_radix(&body[2..], 16).map_err(|_| format!("bad char ref {}", body))?;
                char::from_u32(v).ok_or_else(|| format!("bad char ref {}", body))?
            }
            _ if body.starts_with('#') => {
                let v: u32 = body[1..].parse().map_err(|_| format!("bad char ref {}", body))?;
                char::from_u32(v).ok_or_else(|| format!("bad char ref {}", body))?
            }
            _ => return Err(format!("unknown entity &{};", body)),
        };
        out.push(ch);
        self.i += end + 1;
        Ok(())
    }
    fn attr_value(&mut self) -> Result<String, String> {
        let q = match self.peek() {
            Some(b'"') => b'"',
            Some(b'\'') => b'\'',
            _ => return Err(format!("quote expected at offset {}", self.i)),
        };
        self.i += 1;
        let mut out = String::new();
        let mut raw: Vec<u8> = Vec::new();
        loop {
            match self.peek() {
                None => return Err("unterminated attribute value".into()),
                Some(c) if c == q => {
                    self.i += 1;
                    break;
                }
                Some(b'<') => return Err(format!("'<' in attribute value at offset {}", self.i)),
                Some(b'&') => {
                    out.push_str(
                        std::str::from_utf8(&raw).map_err(|_| "attribute not utf8".to_string())?,
                    );
                    raw.clear();
                    self.reference(&mut out)?;
                }
                Some(c) => {
                    // attribute value normalisation: literal whitespace characters become spaces
                    raw.push(if c == b'\n' || c == b'\t' || c == b'\r' { b' ' } else { c });
                    self.i += 1;
                }
            }
        }
        out.push_str(std::str::from_utf8(&raw).map_err(|_| "attribute not utf8".to_string())?);
        Ok(out)
    }
    fn misc(&mut self) -> Result<(), String> {
        loop {
            self.ws();
            if self.starts("<!--") {
                let end = find(&self.s[self.i + 4..], b"-->").ok_or("unterminated comment")?;
                self.i += 4 + end + 3;
            } else if self.starts("<?") {
                let end = find(&self.s[self.i + 2..], b"?>").ok_or("unterminated PI")?;
                self.i += 2 + end + 2;
            } else {
                return Ok(());
            }
        }
    }
    fn element(&mut self, depth: usize) -> Result<Element, String> {
        if depth > 64 {
            return Err("nesting too deep".into());
        }
        self.expect("<")?;
        let name = self.name()?;
        let mut attrs: Vec<(String, String)> = Vec::new();
        loop {
            let before = self.i;
            self.ws();
            match self.peek() {
                Some(b'/') => {
                    self.expect("/>")?;
                    return Ok(Element {
                        name,
                        attrs,
                        children: Vec::new(),
                        text: String::new(),
                    });
                }
                Some(b'>') => {
                    self.i += 1;
                    break;
                }
                Some(_) => {
                    if before == self.i {
                        return Err(format!("whitespace expected before attribute at {}", self.i));
                    }
                    let an = self.name()?;
                    self.ws();
                    self.expect("=")?;
                    self.ws();
                    let av = self.attr_value()?;
                    if attrs.iter().any(|(k, _)| *k == an) {
                        return Err(format!("duplicate attribute {}", an));
                    }
                    attrs.push((an, av));
                }
                None => return Err("unexpected end in start tag".into()),
            }
        }
        let mut children = Vec::new();
        let mut text = String::new();
        let mut raw: Vec<u8> = Vec::new();
        loop {
            match self.peek() {
                None => return Err(format!("element {} not closed", name)),
                Some(b'<') => {
                    text.push_str(std::str::from_utf8(&raw).map_err(|_| "text not utf8".to_string())?);
                    raw.clear();
                    if self.starts("</") {
                        self.i += 2;
                        let en = self.name()?;
                        if en != name {
                            return Err(format!("end tag {} does not match {}", en, name));
                        }
                        self.ws();
                        self.expect(">")?;
                        return Ok(Element {
                            name,
                            attrs,
                            children,
                            text,
                        });
                    } else if self.starts("<!--") {
                        let end = find(&self.s[self.i + 4..], b"-->").ok_or("unterminated comment")?;
                        self.i += 4 + end + 3;
                    } else if self.starts("<![CDATA[") {
                        let end = find(&self.s[self.i + 9..], b"]]>").ok_or("unterminated CDATA")?;
                        text.push_str(
                            std::str::from_utf8(&self.s[self.i + 9..self.i + 9 + end])
                                .map_err(|_| "cdata not utf8".to_string())?,
                        );
                        self.i += 9 + end + 3;
                    } else if self.starts("<?") {
                        let end = find(&self.s[self.i + 2..], b"?>").ok_or("unterminated PI")?;
                        self.i += 2 + end + 2;
                    } else {
                        children.push(self.element(depth + 1)?);
                    }
                }
                Some(b'&') => {
                    text.push_str(std::str::from_utf8(&raw).map_err(|_| "text not utf8".to_string())?);
                    raw.clear();
                    self.reference(&mut text)?;
                }
                Some(c) => {
                    if c == b']' && self.starts("]]>") {
                        return Err("']]>' in character data".into());
                    }
                    raw.push(c);
                    self.i += 1;
                }
            }
        }
    }
}

fn find(h: &[u8], n: &[u8]) -> Option<usize> {
    h.windows(n.len()).position(|w| w == n)
}

pub fn parse(doc: &[u8]) -> Result<Element, String> {
    std::str::from_utf8(doc).map_err(|e| format!("document is not UTF-8: {}", e))?;
    let mut p = P { s: doc, i: 0 };
    if p.starts("\u{feff}") {
        p.i += 3;
    }
    if p.starts("<?xml") {
        let end = find(&p.s[p.i..], b"?>").ok_or("unterminated XML declaration")?;
        p.i += end + 2;
    }
    p.misc()?;
    if p.starts("<!DOCTYPE") {
        return Err("DOCTYPE not supported".into());
    }
    let root = p.element(0)?;
    p.misc()?;
    if p.i != doc.len() {
        return Err(format!("trailing content at offset {}", p.i));
    }
    // Namespaces in XML: every prefix used by an element or attribute name must be bound by an xmlns:prefix
    // declaration in scope (a namespace-aware reader rejects the document otherwise)
    check_prefixes(&root, &mut vec!["xml".to_string(), "xmlns".to_string()])?;
    Ok(root)
}

fn check_prefixes(e: &Element, scope: &mut Vec<String>) -> Result<(), String> {
    let mark = scope.len();
    for (k, _) in &e.attrs {
        if let Some(p) = k.strip_prefix("xmlns:") {
            scope.push(p.to_string());
        }
    }
    let prefix_of = |n: &str| n.split_once(':').map(|(p, _)| p.to_string());
    if let Some(p) = prefix_of(&e.name) {
        if !scope.contains(&p) {
            return Err(format!("unbound namespace prefix '{}' on element <{}>", p, e.name));
        }
    }
    for (k, _) in &e.attrs {
        if k.starts_with("xmlns:") || k == "xmlns" {
            continue;
        }
        if let Some(p) = prefix_of(k) {
            if !scope.contains(&p) {
                return Err(format!("unbound namespace prefix '{}' on attribute {} of <{}>", p, k, e.name));
            }
        }
    }
    for c in &e.children {
        check_prefixes(c, scope)?;
    }
    scope.truncate(mark);
    Ok(())
}
