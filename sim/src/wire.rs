//! Independent ALC/LCT decoder and encoder written from the RFCs (5651, 5775, 6726, 5445, 5510, 6330, 5053).
//! It never calls `flute::core::*`: it is the observation instrument for sender-side properties and the
//! packet factory for crafted traffic.

use serde::{Deserialize, Serialize};

pub const FEC_NOCODE: u8 = 0;
pub const FEC_RAPTOR: u8 = 1;
pub const FEC_RS2M: u8 = 2;
pub const FEC_RS28: u8 = 5;
pub const FEC_RAPTORQ: u8 = 6;
pub const FEC_RS28US: u8 = 129;

pub const HET_TIME: u8 = 2;
pub const HET_FTI: u8 = 64;
pub const HET_FDT: u8 = 192;
pub const HET_CENC: u8 = 193;

#[derive(Clone, Debug, PartialEq, Serialize, Deserialize)]
pub struct Fti {
    pub fec: u8,
    pub transfer_length: u64,
    pub e: u32,
    /// maximum source block length as carried (No-Code, RS) — None for Raptor/RaptorQ
    pub b: Option<u32>,
    /// max_n (RS schemes)
    pub max_n: Option<u32>,
    pub instance_id: Option<u16>,
    /// Z, N, Al (Raptor / RaptorQ)
    pub z: Option<u32>,
    pub n: Option<u32>,
    pub al: Option<u32>,
}

#[derive(Clone, Debug, PartialEq)]
pub struct Ext {
    pub het: u8,
    /// whole extension including HET (and HEL)
    pub bytes: Vec<u8>,
}

#[derive(Clone, Debug, PartialEq)]
pub struct Decoded {
    pub version: u8,
    pub c: u8,
    pub psi: u8,
    pub s: u8,
    pub o: u8,
    pub h: u8,
    pub close_session: bool,
    pub close_object: bool,
    pub hdr_len: usize,
    pub cp: u8,
    pub cci: u128,
    pub tsi: u64,
    pub toi: u128,
    pub toi_len: usize,
    pub exts: Vec<Ext>,
    pub fdt: Option<(u8, u32)>,
    pub cenc: Option<u8>,
    /// sender current time (NTP seconds, NTP fraction) when SCT-High is present
    pub sct: Option<(u32, u32)>,
    pub fti: Option<Fti>,
    pub sbn: u32,
    pub esi: u32,
    pub sbl: Option<u32>,
    pub payload_off: usize,
    pub payload: Vec<u8>,
}

fn be(b: &[u8]) -> u128 {
    let mut v: u128 = 0;
    for x in b {
        v = (v << 8) | *x as u128;
    }
    v
}

pub fn payload_id_len(fec: u8) -> Option<usize> {
    match fec {
        FEC_NOCODE | FEC_RAPTOR | FEC_RS28 | FEC_RAPTORQ | FEC_RS2M => Some(4),
        FEC_RS28US => Some(8),
        _ => None,
    }
}

pub fn decode(d: &[u8]) -> Result<Decoded, String> {
    if d.len() < 4 {
        return Err("short".into());
    }
    let version = d[0] >> 4;
    let c = (d[0] >> 2) & 3;
    let psi = d[0] & 3;
    let s = d[1] >> 7;
    let o = (d[1] >> 5) & 3;
    let h = (d[1] >> 4) & 1;
    let a = (d[1] >> 1) & 1;
    let b = d[1] & 1;
    let hdr_len = d[2] as usize * 4;
    let cp = d[3];
    if version != 1 {
        return Err(format!("version {}", version));
    }
    if hdr_len > d.len() {
        return Err("hdr_len beyond packet".into());
    }
    let cci_len = 4 * (c as usize + 1);
    let tsi_len = 4 * s as usize + 2 * h as usize;
    let toi_len = 4 * o as usize + 2 * h as usize;
    let mut off = 4;
    if off + cci_len + tsi_len + toi_len > hdr_len {
        return Err("fixed fields beyond hdr_len".into());
    }
    let cci = be(&d[off..off + cci_len]);
    off += cci_len;
    let tsi = be(&d[off..off + tsi_len]) as u64;
    off += tsi_len;
    let toi = be(&d[off..off + toi_len]);
    off += toi_len;
    let mut exts = Vec::new();
    while off < hdr_len {
        if hdr_len - off < 4 {
            return Err("ext truncated".into());
        }
        let het = d[off];
        let len = if het >= 128 { 4 } else { d[off + 1] as usize * 4 };
        if len == 0 || off + len > hdr_len {
            return Err(format!("ext het={} len={} bad", het, len));
        }
        exts.push(Ext {
            het,
            bytes: d[off..off + len].to_vec(),
        });
        off += len;
    }
    let mut fdt = None;
    let mut cenc = None;
    let mut sct = None;
    let mut fti = None;
    for e in &exts {
        match e.het {
            HET_FDT => {
                let w = be(&e.bytes) as u32;
                fdt = Some((((w >> 20) & 0xF) as u8, w & 0xFFFFF));
            }
            HET_CENC => cenc = Some(e.bytes[1]),
            HET_TIME => {
                if e.bytes.len() < 4 {
                    return Err("ext_time short".into());
                }
                let use_bits = ((e.bytes[2] as u16) << 8) | e.bytes[3] as u16;
                let hi = use_bits & 0x8000 != 0;
                let lo = use_bits & 0x4000 != 0;
                let mut p = 4;
                if hi {
                    if e.bytes.len() < p + 4 {
                        return Err("ext_time sct-hi missing".into());
                    }
                    let sec = be(&e.bytes[p..p + 4]) as u32;
                    p += 4;
                    let mut frac = 0;
                    if lo {
                        if e.bytes.len() < p + 4 {
                            return Err("ext_time sct-lo missing".into());
                        }
                        frac = be(&e.bytes[p..p + 4]) as u32;
                    }
                    sct = Some((sec, frac));
                }
            }
            HET_FTI => {
                fti = Some(decode_fti(cp, &e.bytes)?);
            }
            _ => {}
        }
    }
    let pid_len = payload_id_len(cp).ok_or_else(|| format!("unknown codepoint {}", cp))?;
    if hdr_len + pid_len > d.len() {
        return Err("payload id beyond packet".into());
    }
    let pid = &d[hdr_len..hdr_len + pid_len];
    let (sbn, esi, sbl) = match cp {
        FEC_NOCODE | FEC_RAPTOR => (be(&pid[0..2]) as u32, be(&pid[2..4]) as u32, None),
        FEC_RS28 | FEC_RS2M => (be(&pid[0..3]) as u32, pid[3] as u32, None),
        FEC_RAPTORQ => (pid[0] as u32, be(&pid[1..4]) as u32, None),
        FEC_RS28US => (
            be(&pid[0..4]) as u32,
            be(&pid[6..8]) as u32,
            Some(be(&pid[4..6]) as u32),
        ),
        _ => unreachable!(),
    };
    Ok(Decoded {
        version,
        c,
        psi,
        s,
        o,
        h,
        close_session: a != 0,
        close_object: b != 0,
        hdr_len,
        cp,
        cci,
        tsi,
        toi,
        toi_len,
        exts,
        fdt,
        cenc,
        sct,
        fti,
        sbn,
        esi,
        sbl,
        payload_off: hdr_len + pid_len,
        payload: d[hdr_len + pid_len..].to_vec(),
    })
}

fn decode_fti(fec: u8, e: &[u8]) -> Result<Fti, String> {
    let hel = e[1] as usize;
    let mut f = Fti {
        fec,
        transfer_length: 0,
        e: 0,
        b: None,
        max_n: None,
        instance_id: None,
        z: None,
        n: None,
        al: None,
    };
    match fec {
        FEC_NOCODE => {
            // RFC 5445 s4.2.2? Compact No-Code (RFC 5445 s3): L(48) res(16) E(16) B(32)
            if hel != 4 {
                return Err("fti nocode hel".into());
            }
            f.transfer_length = be(&e[2..8]) as u64;
            f.e = be(&e[10..12]) as u32;
            f.b = Some(be(&e[12..16]) as u32);
        }
        FEC_RS28 => {
            // RFC 5510 s5.2.4.2: L(48) E(16) B(8) max_n(8)
            if hel != 3 {
                return Err("fti rs28 hel".into());
            }
            f.transfer_length = be(&e[2..8]) as u64;
            f.e = be(&e[8..10]) as u32;
            f.b = Some(e[10] as u32);
            f.max_n = Some(e[11] as u32);
        }
        FEC_RS28US => {
            // RFC 5445 s5 small block systematic (129): L(48) instance(16) E(16) B(16) max_n(16)
            if hel != 4 {
                return Err("fti 129 hel".into());
            }
            f.transfer_length = be(&e[2..8]) as u64;
            f.instance_id = Some(be(&e[8..10]) as u16);
            f.e = be(&e[10..12]) as u32;
            f.b = Some(be(&e[12..14]) as u32);
            f.max_n = Some(be(&e[14..16]) as u32);
        }
        FEC_RAPTORQ => {
            // RFC 6330 s3.3.2/3.3.3: F(40) res(8) T(16) | Z(8) N(16) Al(8)
            if hel != 4 {
                return Err("fti raptorq hel".into());
            }
            f.transfer_length = be(&e[2..7]) as u64;
            f.e = be(&e[8..10]) as u32;
            f.z = Some(e[10] as u32);
            f.n = Some(be(&e[11..13]) as u32);
            f.al = Some(e[13] as u32);
        }
        FEC_RAPTOR => {
            // RFC 5053 s3.2.2/3.2.3: F(40) res(8) T(16) | Z(16) N(8) Al(8)
            if hel != 4 {
                return Err("fti raptor hel".into());
            }
            f.transfer_length = be(&e[2..7]) as u64;
            f.e = be(&e[8..10]) as u32;
            f.z = Some(be(&e[10..12]) as u32);
            f.n = Some(e[12] as u32);
            f.al = Some(e[13] as u32);
        }
        _ => return Err(format!("fti for fec {} unsupported", fec)),
    }
    Ok(f)
}

// ---------------------------------------------------------------------------------------------
// Encoder

#[derive(Clone, Debug, Default)]
pub struct Build {
    pub cci: u128,
    pub cci_words: u8, // 1..4
    pub tsi: u64,
    pub tsi_len: usize, // 0,2,4,6
    pub toi: u128,
    pub toi_len: usize, // 0,2,..14 (must agree with tsi_len on the half-word bit)
    pub cp: u8,
    pub close_session: bool,
    pub close_object: bool,
    pub fdt: Option<(u8, u32)>,
    pub cenc: Option<u8>,
    pub sct: Option<(u32, u32)>,
    /// encode EXT_TIME with SCT-High only (HEL 2, Use 0x8000): legal per RFC 5651, never produced by flute
    pub sct_high_only: bool,
    /// EXT_TIME also carries an Expected Residual Time word / a Session Last Changed word (RFC 5651 5.2.2.3)
    pub sct_ert: Option<u32>,
    pub sct_slc: Option<u32>,
    pub fti: Option<Fti>,
    pub extra_exts: Vec<Vec<u8>>,
    /// write the single-word extensions EXT_FDT and EXT_CENC LAST (after EXT_TIME, the extra ones and EXT_FTI): the order
    /// of header extensions is free (RFC 5651), flute's sender writes them first
    pub fdt_cenc_last: bool,
    pub sbn: u32,
    pub esi: u32,
    pub sbl: u32,
    pub payload: Vec<u8>,
}

/// smallest legal (tsi_len, toi_len) pair for the given values
pub fn field_lens(tsi: u64, toi: u128) -> (usize, usize) {
    let need = |v: u128| -> usize {
        let mut n = 0;
        let mut x = v;
        while x != 0 {
            n += 1;
            x >>= 8;
        }
        n
    };
    let tn = need(tsi as u128);
    let on = need(toi);
    for h in [0usize, 1] {
        for s in 0..=1usize {
            for o in 0..=3usize {
                let tl = 4 * s + 2 * h;
                let ol = 4 * o + 2 * h;
                if tl >= tn && ol >= on && (tl + ol) > 0 {
                    return (tl, ol);
                }
            }
        }
    }
    (6, 14)
}

fn push_be(out: &mut Vec<u8>, v: u128, len: usize) {
    for i in (0..len).rev() {
        out.push(((v >> (8 * i)) & 0xFF) as u8);
    }
}

pub fn encode_fti(f: &Fti) -> Vec<u8> {
    let mut e = vec![HET_FTI, 0];
    match f.fec {
        FEC_NOCODE => {
            e[1] = 4;
            push_be(&mut e, f.transfer_length as u128, 6);
            push_be(&mut e, 0, 2);
            push_be(&mut e, f.e as u128, 2);
            push_be(&mut e, f.b.unwrap_or(0) as u128, 4);
        }
        FEC_RS28 => {
            e[1] = 3;
            push_be(&mut e, f.transfer_length as u128, 6);
            push_be(&mut e, f.e as u128, 2);
            e.push(f.b.unwrap_or(0) as u8);
            e.push(f.max_n.unwrap_or(0) as u8);
        }
        FEC_RS28US => {
            e[1] = 4;
            push_be(&mut e, f.transfer_length as u128, 6);
            push_be(&mut e, f.instance_id.unwrap_or(0) as u128, 2);
            push_be(&mut e, f.e as u128, 2);
            push_be(&mut e, f.b.unwrap_or(0) as u128, 2);
            push_be(&mut e, f.max_n.unwrap_or(0) as u128, 2);
        }
        FEC_RAPTORQ => {
            e[1] = 4;
            push_be(&mut e, f.transfer_length as u128, 5);
            e.push(0);
            push_be(&mut e, f.e as u128, 2);
            e.push(f.z.unwrap_or(0) as u8);
            push_be(&mut e, f.n.unwrap_or(0) as u128, 2);
            e.push(f.al.unwrap_or(0) as u8);
            push_be(&mut e, 0, 2);
        }
        FEC_RAPTOR => {
            e[1] = 4;
            push_be(&mut e, f.transfer_length as u128, 5);
            e.push(0);
            push_be(&mut e, f.e as u128, 2);
            push_be(&mut e, f.z.unwrap_or(0) as u128, 2);
            e.push(f.n.unwrap_or(0) as u8);
            e.push(f.al.unwrap_or(0) as u8);
            push_be(&mut e, 0, 2);
        }
        FEC_RS2M => {
            // RFC 5510 s4.2.4: L(48) m(8) G(8) E(16) B(16) max_n(16); m and G travel in (z, n) here
            e[1] = 4;
            push_be(&mut e, f.transfer_length as u128, 6);
            e.push(f.z.unwrap_or(8) as u8);
            e.push(f.n.unwrap_or(1) as u8);
            push_be(&mut e, f.e as u128, 2);
            push_be(&mut e, f.b.unwrap_or(0) as u128, 2);
            push_be(&mut e, f.max_n.unwrap_or(0) as u128, 2);
        }
        _ => {
            e[1] = 1;
            push_be(&mut e, 0, 2);
        }
    }
    e
}

pub fn encode(b: &Build) -> Vec<u8> {
    let c = b.cci_words.clamp(1, 4) - 1;
    let h = ((b.tsi_len % 4) / 2) as u8 | ((b.toi_len % 4) / 2) as u8;
    let s = (b.tsi_len / 4) as u8;
    let o = (b.toi_len / 4) as u8;
    let mut out = vec![
        (1 << 4) | (c << 2),
        (s << 7) | (o << 5) | (h << 4) | ((b.close_session as u8) << 1) | (b.close_object as u8),
        0,
        b.cp,
    ];
    push_be(&mut out, b.cci, 4 * (c as usize + 1));
    push_be(&mut out, b.tsi as u128, 4 * s as usize + 2 * h as usize);
    push_be(&mut out, b.toi, 4 * o as usize + 2 * h as usize);
    if !b.fdt_cenc_last {
        if let Some((v, id)) = b.fdt {
            let w: u32 = ((HET_FDT as u32) << 24) | ((v as u32 & 0xF) << 20) | (id & 0xFFFFF);
            out.extend_from_slice(&w.to_be_bytes());
        }
        if let Some(ce) = b.cenc {
            out.extend_from_slice(&[HET_CENC, ce, 0, 0]);
        }
    }
    if b.sct.is_none() && (b.sct_ert.is_some() || b.sct_slc.is_some()) {
        // an EXT_TIME without any sender current time (RFC 5651 5.2.2.3: every field of it is optional)
        let mut flags = 0u8;
        let mut words = 1u8;
        if b.sct_ert.is_some() {
            flags |= 0x20;
            words += 1;
        }
        if b.sct_slc.is_some() {
            flags |= 0x10;
            words += 1;
        }
        out.extend_from_slice(&[HET_TIME, words, flags, 0]);
        if let Some(v) = b.sct_ert {
            out.extend_from_slice(&v.to_be_bytes());
        }
        if let Some(v) = b.sct_slc {
            out.extend_from_slice(&v.to_be_bytes());
        }
    }
    if let Some((sec, frac)) = b.sct {
        let mut flags = 0x80u8;
        let mut words = 2u8;
        if !b.sct_high_only {
            flags |= 0x40;
            words += 1;
        }
        if b.sct_ert.is_some() {
            flags |= 0x20;
            words += 1;
        }
        if b.sct_slc.is_some() {
            flags |= 0x10;
            words += 1;
        }
        out.extend_from_slice(&[HET_TIME, words, flags, 0]);
        out.extend_from_slice(&sec.to_be_bytes());
        if !b.sct_high_only {
            out.extend_from_slice(&frac.to_be_bytes());
        }
        if let Some(v) = b.sct_ert {
            out.extend_from_slice(&v.to_be_bytes());
        }
        if let Some(v) = b.sct_slc {
            out.extend_from_slice(&v.to_be_bytes());
        }
    }
    for x in &b.extra_exts {
        out.extend_from_slice(x);
    }
    if let Some(f) = &b.fti {
        out.extend_from_slice(&encode_fti(f));
    }
    if b.fdt_cenc_last {
        if let Some(ce) = b.cenc {
            out.extend_from_slice(&[HET_CENC, ce, 0, 0]);
        }
        if let Some((v, id)) = b.fdt {
            let w: u32 = ((HET_FDT as u32) << 24) | ((v as u32 & 0xF) << 20) | (id & 0xFFFFF);
            out.extend_from_slice(&w.to_be_bytes());
        }
    }
    debug_assert!(out.len() % 4 == 0);
    out[2] = (out.len() / 4) as u8;
    match b.cp {
        FEC_NOCODE | FEC_RAPTOR => {
            push_be(&mut out, (b.sbn & 0xFFFF) as u128, 2);
            push_be(&mut out, (b.esi & 0xFFFF) as u128, 2);
        }
        FEC_RS28 | FEC_RS2M => {
            push_be(&mut out, (b.sbn & 0xFFFFFF) as u128, 3);
            out.push((b.esi & 0xFF) as u8);
        }
        FEC_RAPTORQ => {
            out.push((b.sbn & 0xFF) as u8);
            push_be(&mut out, (b.esi & 0xFFFFFF) as u128, 3);
        }
        FEC_RS28US => {
            push_be(&mut out, b.sbn as u128, 4);
            push_be(&mut out, (b.sbl & 0xFFFF) as u128, 2);
            push_be(&mut out, (b.esi & 0xFFFF) as u128, 2);
        }
        _ => {
            push_be(&mut out, 0, 4);
        }
    }
    out.extend_from_slice(&b.payload);
    out
}

/// NTP (seconds, fraction) of a UNIX time given in microseconds.
pub fn ntp_of_unix_micros(us: u64) -> (u32, u32) {
    let sec = us / 1_000_000 + 2_208_988_800;
    let frac = ((us % 1_000_000) as u128 * (1u128 << 32) / 1_000_000) as u32;
    (sec as u32, frac)
}

/// UNIX microseconds of an NTP (seconds, fraction) pair (truncating).
pub fn unix_micros_of_ntp(sec: u32, frac: u32) -> Option<u64> {
    let s = (sec as u64).checked_sub(2_208_988_800)?;
    Some(s * 1_000_000 + ((frac as u128 * 1_000_000) >> 32) as u64)
}

/// RFC 5052 s9.1 block partitioning in 128-bit arithmetic: (a_large, a_small, nb_a_large, nb_blocks).
pub fn partition(b: u64, l: u64, e: u64) -> (u64, u64, u64, u64) {
    if b == 0 || e == 0 {
        return (0, 0, 0, 0);
    }
    let (b, l, e) = (b as u128, l as u128, e as u128);
    let t = (l + e - 1) / e;
    let n = (t + b - 1) / b;
    if n == 0 {
        return (0, 0, 0, 0);
    }
    let a_large = (t + n - 1) / n;
    let a_small = t / n;
    let nb_large = t - a_small * n;
    (a_large as u64, a_small as u64, nb_large as u64, n as u64)
}

/// Source-symbol count of block `sbn` under the partition.
pub fn block_k(p: (u64, u64, u64, u64), sbn: u64) -> u64 {
    if sbn < p.2 {
        p.0
    } else {
        p.1
    }
}

/// First symbol index (object-wide) of block `sbn`.
pub fn block_first_symbol(p: (u64, u64, u64, u64), sbn: u64) -> u64 {
    if sbn <= p.2 {
        sbn * p.0
    } else {
        p.2 * p.0 + (sbn - p.2) * p.1
    }
}

/// Rebuild the encoder input from a decoded packet (round trip: encode(&to_build(&d)) == original
/// for packets made of the extensions this module knows).
pub fn to_build(d: &Decoded) -> Build {
    let mut extra = Vec::new();
    for e in &d.exts {
        if !matches!(e.het, HET_FDT | HET_CENC | HET_TIME | HET_FTI) {
            extra.push(e.bytes.clone());
        }
    }
    Build {
        cci: d.cci,
        cci_words: d.c + 1,
        tsi: d.tsi,
        tsi_len: 4 * d.s as usize + 2 * d.h as usize,
        toi: d.toi,
        toi_len: 4 * d.o as usize + 2 * d.h as usize,
        cp: d.cp,
        close_session: d.close_session,
        close_object: d.close_object,
        fdt: d.fdt,
        cenc: d.cenc,
        sct: d.sct,
        sct_high_only: false,
        sct_ert: None,
        sct_slc: None,
        fti: d.fti.clone(),
        extra_exts: extra,
        fdt_cenc_last: false,
        sbn: d.sbn,
        esi: d.esi,
        sbl: d.sbl.unwrap_or(0),
        payload: d.payload.clone(),
    }
}

/// Packetise an FDT instance (XML bytes) with the No-Code scheme: one block, symbols of `e` bytes.
pub fn packetise_fdt(xml: &[u8], tsi: u64, instance_id: u32, e: usize, sct: Option<(u32, u32)>, cenc: Option<u8>) -> Vec<Vec<u8>> {
    let e = e.max(1);
    let n = (xml.len() + e - 1) / e;
    let (tsi_len, toi_len) = field_lens(tsi, 0);
    let mut out = Vec::new();
    for i in 0..n.max(1) {
        let lo = (i * e).min(xml.len());
        let hi = ((i + 1) * e).min(xml.len());
        out.push(encode(&Build {
            cci: 0,
            cci_words: 1,
            tsi,
            tsi_len,
            toi: 0,
            toi_len,
            cp: FEC_NOCODE,
            fdt: Some((2, instance_id & 0xFFFFF)),
            cenc,
            sct,
            fti: Some(Fti {
                fec: FEC_NOCODE,
                transfer_length: xml.len() as u64,
                e: e as u32,
                b: Some(n.max(1) as u32),
                max_n: None,
                instance_id: None,
                z: None,
                n: None,
                al: None,
            }),
            sbn: 0,
            esi: i as u32,
            payload: xml[lo..hi].to_vec(),
            ..Default::default()
        }));
    }
    out
}

/// RFC 6330 s4.4.1.2 sub-blocking: byte sizes of the N sub-symbols that make up one symbol of T bytes
/// ((TL, TS, NL, NS) = Partition[T/Al, N]; the first NL sub-symbols have TL*Al bytes, the others TS*Al).
pub fn rq_subsymbol_sizes(t: usize, n: usize, al: usize) -> Vec<usize> {
    let n = n.max(1);
    let al = al.max(1);
    let i = t / al;
    let il = (i + n - 1) / n;
    let is = i / n;
    let jl = i - is * n;
    (0..n).map(|j| if j < jl { il * al } else { is * al }).collect()
}

/// The K symbols of a source block laid out with sub-blocking: the block (K*T bytes, zero padded) is cut
/// into N contiguous sub-blocks of K sub-symbols each; symbol m is the concatenation of the m-th sub-symbol
/// of every sub-block.
pub fn rq_interleave(block: &[u8], k: usize, sizes: &[usize]) -> Vec<Vec<u8>> {
    let t: usize = sizes.iter().sum();
    let mut padded = block.to_vec();
    padded.resize(k * t, 0);
    let mut out = vec![Vec::with_capacity(t); k];
    let mut off = 0;
    for s in sizes {
        for (m, sym) in out.iter_mut().enumerate() {
            sym.extend_from_slice(&padded[off + m * s..off + (m + 1) * s]);
        }
        off += k * s;
    }
    out
}

/// Inverse of `rq_interleave`: the K*T bytes of the block from its K symbols.
pub fn rq_deinterleave(symbols: &[Vec<u8>], sizes: &[usize]) -> Vec<u8> {
    let k = symbols.len();
    let t: usize = sizes.iter().sum();
    let mut block = vec![0u8; k * t];
    let mut off = 0;
    let mut in_sym = 0;
    for s in sizes {
        for (m, sym) in symbols.iter().enumerate() {
            let piece = sym.get(in_sym..in_sym + s).map(|x| x.to_vec()).unwrap_or_else(|| vec![0; *s]);
            block[off + m * s..off + (m + 1) * s].copy_from_slice(&piece);
        }
        off += k * s;
        in_sym += s;
    }
    block
}


/// The same packet in another LEGAL encoding (RFC 5651): nothing a receiver acts on changes.
/// mode bit 0: the widest TSI / TOI fields the flags allow (48-bit TSI, 112-bit TOI); bit 1: a 128-bit congestion control
/// field; bit 2: header extensions a receiver must skip - EXT_NOP (one and two words), an unknown variable-length
/// extension, an unknown fixed-length one - ahead of the EXT_FTI; bit 3: the single-word EXT_FDT / EXT_CENC written last.
pub fn reencode(bytes: &[u8], mode: u8) -> Option<Vec<u8>> {
    let d = decode(bytes).ok()?;
    let mut b = to_build(&d);
    if mode & 1 != 0 {
        b.tsi_len = 6;
        b.toi_len = 14;
    }
    if mode & 2 != 0 {
        b.cci_words = 4;
    }
    if mode & 4 != 0 {
        b.extra_exts.push(vec![0, 1, 0, 0]);
        b.extra_exts.push(vec![0, 2, 0xAA, 0xBB, 1, 2, 3, 4]);
        b.extra_exts.push(vec![100, 2, 9, 9, 9, 9, 9, 9]);
        b.extra_exts.push(vec![250, 1, 2, 3]);
    }
    if mode & 8 != 0 {
        b.fdt_cenc_last = true;
    }
    Some(encode(&b))
}
