//! Counting global allocator: live bytes, peak, largest single request; optional hard ceiling on a
//! single request (refused => the process aborts, which the parent's crash isolation reports).

use std::alloc::{GlobalAlloc, Layout, System};
use std::sync::atomic::{AtomicUsize, Ordering};

pub struct Counting;

static LIVE: AtomicUsize = AtomicUsize::new(0);
static PEAK: AtomicUsize = AtomicUsize::new(0);
static LARGEST: AtomicUsize = AtomicUsize::new(0);
static CEILING: AtomicUsize = AtomicUsize::new(usize::MAX);

unsafe impl GlobalAlloc for Counting {
    unsafe fn alloc(&self, layout: Layout) -> *mut u8 {
        let sz = layout.size();
        if sz > CEILING.load(Ordering::Relaxed) {
            return std::ptr::null_mut();
        }
        let p = System.alloc(layout);
        if !p.is_null() {
            let live = LIVE.fetch_add(sz, Ordering::Relaxed) + sz;
            PEAK.fetch_max(live, Ordering::Relaxed);
            LARGEST.fetch_max(sz, Ordering::Relaxed);
        }
        p
    }

    unsafe fn alloc_zeroed(&self, layout: Layout) -> *mut u8 {
        let sz = layout.size();
        if sz > CEILING.load(Ordering::Relaxed) {
            return std::ptr::null_mut();
        }
        let p = System.alloc_zeroed(layout);
        if !p.is_null() {
            let live = LIVE.fetch_add(sz, Ordering::Relaxed) + sz;
            PEAK.fetch_max(live, Ordering::Relaxed);
            LARGEST.fetch_max(sz, Ordering::Relaxed);
        }
        p
    }

    unsafe fn dealloc(&self, ptr: *mut u8, layout: Layout) {
        LIVE.fetch_sub(layout.size(), Ordering::Relaxed);
        System.dealloc(ptr, layout)
    }

    unsafe fn realloc(&self, ptr: *mut u8, layout: Layout, new_size: usize) -> *mut u8 {
        if new_size > CEILING.load(Ordering::Relaxed) {
            return std::ptr::null_mut();
        }
        let p = System.realloc(ptr, layout, new_size);
        if !p.is_null() {
            let old = layout.size();
            if new_size >= old {
                let live = LIVE.fetch_add(new_size - old, Ordering::Relaxed) + (new_size - old);
                PEAK.fetch_max(live, Ordering::Relaxed);
            } else {
                LIVE.fetch_sub(old - new_size, Ordering::Relaxed);
            }
            LARGEST.fetch_max(new_size, Ordering::Relaxed);
        }
        p
    }
}

pub fn live() -> usize {
    LIVE.load(Ordering::Relaxed)
}
pub fn peak() -> usize {
    PEAK.load(Ordering::Relaxed)
}
pub fn largest() -> usize {
    LARGEST.load(Ordering::Relaxed)
}
/// Restart peak / largest tracking from the current live level.
pub fn reset_marks() {
    PEAK.store(LIVE.load(Ordering::Relaxed), Ordering::Relaxed);
    LARGEST.store(0, Ordering::Relaxed);
}
pub fn set_ceiling(c: usize) {
    CEILING.store(c, Ordering::Relaxed);
}
