//! Receiver driver: a real `MultiReceiver` fed by the simulated channel under simulated wall and
//! monotonic clocks.

use crate::ctx::Ctx;
use crate::monitor::*;
use crate::sdrv::t0_us;
use crate::spec::*;
use flute::core::UDPEndpoint;
use flute::receiver::MultiReceiver;
use std::cell::RefCell;
use std::rc::Rc;
use std::time::Duration;

pub const LOOP_BUDGET: u64 = 2_000_000;

#[derive(Clone, Debug)]
pub struct Delivery {
    /// true (sender-side) time of arrival in UNIX microseconds
    pub t_us: u64,
    pub bytes: Vec<u8>,
    /// index of the sender packet this copy stems from (None = injected)
    pub src: Option<usize>,
    /// endpoint index (multi-session scenarios)
    pub ep: usize,
}

pub struct RecvRun {
    pub recv: Option<MultiReceiver>,
    pub monitor: Rc<Monitor>,
    pub sess_events: Rc<RefCell<Vec<SessEvent>>>,
    pub ctx: Ctx,
    /// receiver wall-clock offset relative to true time, in microseconds
    pub offset_us: i64,
    /// the wall clock handed to flute stands still at this instant (the monotonic clock still advances)
    pub freeze_wall: Option<u64>,
    pub pushes: u64,
    pub push_errs: u64,
    pub label: String,
}

impl RecvRun {
    pub fn new(
        spec: &RecvSpec,
        ctx: &Ctx,
        monitor: Rc<Monitor>,
        tsi_filter: bool,
        label: &str,
    ) -> RecvRun {
        let mut recv = MultiReceiver::new(monitor.clone(), Some(spec.config()), tsi_filter);
        let (l, ev) = Listener::new(ctx);
        if !label.ends_with("-nolistener") {
            recv.add_listener(l);
        }
        RecvRun {
            recv: Some(recv),
            monitor,
            sess_events: ev,
            ctx: ctx.clone(),
            offset_us: 0,
            freeze_wall: None,
            pushes: 0,
            push_errs: 0,
            label: label.to_string(),
        }
    }

    pub fn set_clock(&self, t_us: u64) {
        flute::verif::clock::set(Duration::from_micros(t_us.saturating_sub(t0_us() - 1_000_000)));
    }

    pub fn wall(&self, t_us: u64) -> std::time::SystemTime {
        let t_us = self.freeze_wall.unwrap_or(t_us);
        // (a receiver clock before 1970 is a SystemTime before the UNIX epoch)
        let v = t_us as i128 + self.offset_us as i128;
        if v >= 0 {
            systime_us(v as u64)
        } else {
            std::time::UNIX_EPOCH - Duration::from_micros((-v) as u64)
        }
    }

    /// Push one datagram; returns whether flute accepted it (Ok).
    pub fn push(&mut self, ep: &UDPEndpoint, bytes: &[u8], t_us: u64) -> bool {
        self.set_clock(t_us);
        flute::verif::reset_loop_budget(LOOP_BUDGET);
        let now = self.wall(t_us);
        self.pushes += 1;
        let ok = self.recv.as_mut().unwrap().push(ep, bytes, now).is_ok();
        if !ok {
            self.push_errs += 1;
        }
        {
            let mut c = self.ctx.borrow_mut();
            c.trace(&format!("{} push t={} len={} ok={}", self.label, t_us, bytes.len(), ok));
        }
        ok
    }

    pub fn cleanup(&mut self, t_us: u64) {
        self.set_clock(t_us);
        flute::verif::reset_loop_budget(LOOP_BUDGET);
        let now = self.wall(t_us);
        self.recv.as_mut().unwrap().cleanup(now);
        self.ctx
            .borrow_mut()
            .trace(&format!("{} cleanup t={}", self.label, t_us));
    }

    pub fn nb_objects(&self) -> usize {
        self.recv.as_ref().map(|r| r.nb_objects()).unwrap_or(0)
    }

    pub fn nb_objects_error(&self) -> usize {
        self.recv.as_ref().map(|r| r.nb_objects_error()).unwrap_or(0)
    }

    /// Drop the receiver (crash / end of run); `Drop` of every object is observed by the monitor.
    pub fn drop_receiver(&mut self) {
        flute::verif::reset_loop_budget(LOOP_BUDGET);
        self.recv.take();
        self.ctx
            .borrow_mut()
            .trace(&format!("{} drop", self.label));
    }
}
