//! C14 — timing: start times, carousel gaps and pacing never early; due packets go out at the
//! first poll at or after their due time; degenerate inputs are safe.

use super::common::*;
use super::sendview::*;
use crate::ctx::{violate, Ctx};
use crate::engine::*;
use crate::fdtview;
use crate::rng::Rng;
use crate::sdrv::*;
use crate::spec::*;
use serde::{Deserialize, Serialize};
use serde_json::Value;
use std::path::Path;

#[derive(Clone, Debug, PartialEq, Serialize, Deserialize)]
pub struct Scn {
    pub sender: SenderScn,
}

pub struct C14;

pub fn gen(rng: &mut Rng, _tier: Tier) -> Scn {
    let mut spec = SenderSpec::basic(OtiSpec::new(Scheme::NoCode, 1400, 64, 0, true));
    spec.interleave = rng.range(1, 3) as u8;
    spec.queues = vec![(0, rng.range(0, 3) as u32)];
    if rng.chance(0.3) {
        spec.queues.push((1, rng.range(0, 2) as u32));
    }
    spec.full_fdt = rng.chance(0.6);
    spec.fdt_carousel = CarouselSpec::DelayMs(*rng.pick(&[100u64, 1000]));
    if rng.chance(0.04) {
        // "send each FDT instance once"
        spec.fdt_carousel = if rng.chance(0.5) { CarouselSpec::DelayMax } else { CarouselSpec::IntervalMax };
    }
    let n = rng.range(1, 3) as usize;
    let mut objects = Vec::new();
    let mut ops = Vec::new();
    for i in 0..n {
        let scheme = *rng.pick(&[Scheme::NoCode, Scheme::Rs28, Scheme::RaptorQ]);
        let e = *rng.pick(&[4u16, 16, 64]);
        let b = rng.range(1, 4) as u32;
        let syms = *rng.pick(&[0u64, 1, 1, 2, 5, 9, 20]);
        let len = if syms == 0 { 0 } else { (syms * e as u64 - rng.range(0, e as u64 - 1)) as usize };
        let mut o = ObjectSpec::basic(len, rng.next_u64(), i);
        o.oti = Some(OtiSpec::new(scheme, e, b, if scheme == Scheme::NoCode { 0 } else { rng.range(1, 2) as u32 }, true));
        if rng.chance(0.25) {
            // the number of packets to pace is the one of the TRANSFER length (content encoding changes it)
            o.cenc = *rng.pick(&[CencSpec::Zlib, CencSpec::Deflate, CencSpec::Gzip]);
            if rng.chance(0.6) {
                o.kind = ContentKind::Text;
                o.len = (o.len * *rng.pick(&[1usize, 4, 12])).min(4000);
            }
        }
        o.prio = spec.queues[rng.below(spec.queues.len() as u64) as usize].0;
        o.max_transfer_count = *rng.pick(&[1u32, 1, 2, 3]);
        // start time before / at / after the first poll
        o.start_ms = match rng.below(5) {
            0 => Some(T0_MS - rng.range(1, 5000)),
            1 => Some(T0_MS),
            2 => Some(T0_MS + rng.range(1, 400)),
            _ => None,
        };
        if rng.chance(0.5) {
            let d = *rng.pick(&[0u64, 1, 7, 50, 333]);
            o.carousel = Some(if rng.chance(0.5) { CarouselSpec::DelayMs(d) } else { CarouselSpec::IntervalMs(d) });
            // (degenerate: a delay that never elapses - the object repeats only when triggered)
            if rng.chance(0.06) {
                o.carousel = Some(if rng.chance(0.5) { CarouselSpec::DelayMax } else { CarouselSpec::IntervalMax });
            }
        }
        o.target = match rng.below(6) {
            0 => Some(TargetSpec::Fast),
            1 => Some(TargetSpec::DurationMs(*rng.pick(&[0u64, 1, 10, 100, 700]))),
            2 => Some(TargetSpec::AtMs(T0_MS + *rng.pick(&[0u64, 5, 100, 900]))),
            3 => Some(TargetSpec::AtMs(T0_MS - rng.range(1, 10_000))), // deadline in the past
            _ => None,
        };
        objects.push(o);
        ops.push(TimedOp { when: When::AtUs(0), op: Op::Add(i) });
    }
    ops.push(TimedOp { when: When::AtUs(0), op: Op::Publish });
    for i in 0..n {
        if rng.chance(0.25) {
            ops.push(TimedOp {
                when: if rng.chance(0.5) { When::AfterPkt(rng.range(1, 40)) } else { When::AtUs(rng.range(0, 1_500_000)) },
                op: Op::Trigger { obj: i, at_us: if rng.chance(0.5) { None } else { Some(rng.range(0, 2_000_000)) } },
            });
        }
        if objects[i].carousel.is_some() {
            ops.push(TimedOp { when: When::AtUs(rng.range(500_000, 2_500_000)), op: Op::Remove(i) });
        }
    }
    if rng.chance(0.08) {
        // set_complete(): the timing of what is queued does not change
        let when = if rng.chance(0.5) { When::AtUs(0) } else { When::AfterPkt(rng.range(1, 60)) };
        ops.push(TimedOp { when, op: Op::SetComplete });
    }
    let gap = match rng.below(5) {
        0 => GapSpec::FixedUs(*rng.pick(&[1u64, 10, 100, 1000])),
        1 => GapSpec::FixedUs(rng.range(1_000, 300_000)),
        2 => GapSpec::RandomUs { seed: rng.next_u64(), min: 0, max: rng.range(1, 200_000) },
        3 => GapSpec::ListUs(vec![0, 0, 1, 999, 1000, 1001, 250_000, 0, 3_000_000]),
        _ => GapSpec::ListUs((0..rng.range(2, 9)).map(|_| rng.log_uniform(1.0, 2_000_000.0) as u64).collect()),
    };
    let poll = PollSpec {
        start_us: 0,
        gap,
        burst: None,
        max_polls: 30_000,
        max_pkts: 6_000,
        idle_polls_after_done: 1,
    };
    Scn { sender: SenderScn { spec, objects, ops, poll, snapshots: false } }
}

pub fn oracle(scn: &SenderScn, ctx: &Ctx, trace: &SenderTrace) {
    let tr = transfers(scn, trace);
    for e in &tr.event_errors {
        violate(ctx, "C14/transfer-events", "-", e.clone());
    }
    let txs = fdtview::fdt_transmissions(&trace.pkts);
    // degenerate inputs must not stall the sender: at ONE fixed instant (a poll drains the sender until it
    // answers 'nothing to send') the number of packets is bounded by what the objects and the FDT can send without
    // the clock advancing (every object at most one burst of its transfers and one more transfer, FDT instances)
    {
        let max_fdt = txs.iter().map(|t| t.pkts.len()).max().unwrap_or(1) as u64 + 1;
        let max_tr = tr.list.iter().map(|t| t.pkts.len()).max().unwrap_or(0) as u64 + 1;
        let per_obj: u64 = scn.objects.iter().map(|o| (o.max_transfer_count.max(1) as u64 + 2) * (max_tr + max_fdt)).sum();
        let n_ops = scn.ops.len() as u64 + 2;
        let bound = 4 * per_obj + 4 * n_ops * max_fdt + 64;
        for (pi, p) in trace.polls.iter().enumerate() {
            if p.n_pkts as u64 > bound {
                violate(
                    ctx,
                    "C14/sender-stalls-the-caller-at-a-fixed-instant",
                    "-",
                    format!("poll {} at +{} us returned {} packets without ever answering 'nothing to send' at that instant (bound {})", pi, p.t_us.saturating_sub(t0_us()), p.n_pkts, bound),
                );
                break;
            }
        }
    }
    for (i, o) in scn.objects.iter().enumerate() {
        let toi = match trace.obj_toi[i] {
            Some(t) => t,
            None => continue,
        };
        let oti = o.eff_oti(&scn.spec.oti);
        let mine: Vec<&Transfer> = tr.list.iter().filter(|t| t.obj == i).collect();
        // applicable start time at a given event: the object's own, overridden by triggers
        let start_at = |seq: u64| -> Option<u64> {
            let mut st = o.start_ms.map(|m| m * 1000);
            for r in &trace.ops {
                if r.seq >= seq {
                    break;
                }
                if let Op::Trigger { obj, at_us: Some(u) } = &r.op {
                    if *obj == i && r.result == OpResult::Triggered(true) {
                        // a trigger on an object that is being transferred is a no-op
                        let in_flight = mine.iter().any(|t| t.start_seq < r.seq && t.stop_seq.map(|s| s > r.seq).unwrap_or(true));
                        if !in_flight {
                            st = Some(t0_us() + u);
                        }
                    }
                }
            }
            st
        };
        // 0. a waiting carousel object triggered AT A TIME goes out at the first poll after that time (un-paced workloads:
        // a poll that ends with 'nothing to send' leaves no slot busy)
        if o.carousel.is_some() && scn.objects.iter().all(|x| x.target.is_none()) {
            let trig: Vec<&OpRec> = trace.ops.iter().filter(|r| matches!(r.op, Op::Trigger { obj, .. } if obj == i)).collect();
            if let [r] = trig.as_slice() {
                if let (Op::Trigger { at_us: Some(u), .. }, true) = (&r.op, r.result == OpResult::Triggered(true)) {
                    let in_flight = mine.iter().any(|t| t.start_seq < r.seq && t.stop_seq.map(|s| s > r.seq).unwrap_or(true));
                    let sent_before = mine.iter().any(|t| t.stop_seq.map(|s| s < r.seq).unwrap_or(false));
                    let gone = removal_seq(trace, i).unwrap_or(u64::MAX);
                    if !in_flight && sent_before {
                        let due = t0_us() + u;
                        if let Some((pi, p)) = trace.polls.iter().enumerate().find(|(_, p)| p.seq_begin > r.seq && p.t_us > due + 1000 && p.drained) {
                            let end_seq = trace.polls.get(pi + 1).map(|n| n.seq_begin).unwrap_or(u64::MAX);
                            let started = mine.iter().any(|t| t.start_seq > r.seq && t.start_seq < end_seq);
                            if !started && end_seq < gone && end_seq != u64::MAX {
                                violate(
                                    ctx,
                                    "C14/triggered-transfer-late",
                                    "-",
                                    format!("toi={}: waiting between two carousel transfers it was triggered for +{} us, yet the poll at +{} us (which ends with 'nothing to send') did not start it", toi, u, p.t_us.saturating_sub(t0_us())),
                                );
                            }
                        }
                    }
                }
            }
        }
        for t in &mine {
            // 1. not before the start time
            if let Some(st) = start_at(t.start_seq) {
                if t.start_us < st {
                    violate(
                        ctx,
                        "C14/before-start-time",
                        "-",
                        format!("toi={} transfer {} starts at {} us, {} us before its start time", toi, t.n, t.start_us, st - t.start_us),
                    );
                }
                if let Some(p) = t.pkts.first() {
                    if trace.pkts[*p].t_us < st {
                        violate(ctx, "C14/before-start-time", "packet", format!("toi={} packet {} emitted {} us before the start time", toi, p, st - trace.pkts[*p].t_us));
                    }
                }
            }
            ctx.borrow_mut().note("transfers-checked");
            // 1b. a transfer that has started sends its first packet in the SAME poll (polls drain the sender: whatever
            // is due - the FDT announcing the object, then its first packet - goes out before 'nothing to send')
            let poll_of = |seq: u64| trace.polls.iter().rposition(|p| p.seq_begin < seq);
            if let (Some(ps), Some(fp)) = (poll_of(t.start_seq), t.pkts.first()) {
                let pf = poll_of(trace.pkts[*fp].seq);
                let removed_before_first = removal_seq(trace, i).map(|r| r > t.start_seq && r < trace.pkts[*fp].seq).unwrap_or(false);
                if let Some(pf) = pf {
                    if pf > ps && trace.polls[ps].drained && !removed_before_first {
                        violate(
                            ctx,
                            "C14/first-packet-late",
                            "-",
                            format!(
                                "toi={} transfer {} starts during poll {} (+{} us), which ends with 'nothing to send', but its first packet only goes out at poll {} (+{} us)",
                                toi, t.n, ps, trace.polls[ps].t_us.saturating_sub(t0_us()), pf, trace.polls[pf].t_us.saturating_sub(t0_us())
                            ),
                        );
                    }
                }
            }
        }
        // 2. carousel gaps at burst boundaries
        if let Some(c) = &o.carousel {
            for w in mine.windows(2) {
                let (a, b) = (w[0], w[1]);
                if a.n as u32 % o.max_transfer_count.max(1) != 0 {
                    continue; // flute sends max_transfer_count transfers back to back, then waits
                }
                let stop_seq = match a.stop_seq {
                    Some(s) => s,
                    None => continue,
                };
                let triggered = trace.ops.iter().any(|r| {
                    matches!(r.op, Op::Trigger { obj, .. } if obj == i) && r.seq > stop_seq && r.seq < b.start_seq
                });
                if triggered {
                    ctx.borrow_mut().note("relax:carousel-gap-after-trigger");
                    continue;
                }
                match c {
                    CarouselSpec::DelayMs(d) => {
                        let stop = a.stop_us.unwrap();
                        if b.start_us < stop + d * 1000 {
                            violate(
                                ctx,
                                "C14/carousel-delay-early",
                                "-",
                                format!("toi={} transfer {} starts {} us after transfer {} ended, configured delay {} ms", toi, b.n, b.start_us - stop, a.n, d),
                            );
                        }
                    }
                    CarouselSpec::IntervalMs(d) => {
                        if b.start_us < a.start_us + d * 1000 {
                            violate(
                                ctx,
                                "C14/carousel-interval-early",
                                "-",
                                format!("toi={} transfer {} starts {} us after transfer {} started, configured interval {} ms", toi, b.n, b.start_us - a.start_us, a.n, d),
                            );
                        }
                    }
                    // a delay / interval that never elapses: no new burst without a trigger
                    CarouselSpec::DelayMax | CarouselSpec::IntervalMax => {
                        violate(ctx, "C14/carousel-delay-early", "never-elapsing-delay", format!("toi={} transfer {} starts although the configured carousel delay never elapses and the object was not triggered", toi, b.n));
                    }
                }
                ctx.borrow_mut().note("carousel-gaps-checked");
            }
        }
        // 3. pacing
        let tl = txs
            .iter()
            .filter_map(|x| x.doc.as_ref())
            .flat_map(|d| d.files.iter())
            .find(|f| f.toi == toi)
            .and_then(|f| f.transfer_length)
            .unwrap_or(o.len as u64);
        let nb = (tl + oti.e as u64 - 1) / oti.e as u64;
        for t in &mine {
            let target_us: Option<u64> = match &o.target {
                Some(TargetSpec::DurationMs(d)) => Some(d * 1000),
                Some(TargetSpec::AtMs(at)) => Some((at * 1000).saturating_sub(t.start_us)),
                _ => None,
            };
            let target_us = match target_us {
                Some(x) => x,
                None => continue,
            };
            if nb == 0 {
                continue;
            }
            for (k, p) in t.pkts.iter().enumerate() {
                // exact rational arithmetic, 1 us tolerance for flute's f64 tick
                let due = t.start_us + (k as u128 * target_us as u128 / nb as u128) as u64;
                let at = trace.pkts[*p].t_us;
                if at + 1 < due {
                    violate(
                        ctx,
                        "C14/pacing-early",
                        "-",
                        format!(
                            "toi={} transfer {} packet #{} emitted at +{} us, due at +{} us (target {} us over {} source packets)",
                            toi, t.n, k, at - t.start_us, due - t.start_us, target_us, nb
                        ),
                    );
                    break;
                }
            }
            // 4. due-packet liveness at drained polls
            for (pi, poll) in trace.polls.iter().enumerate() {
                if !poll.drained || poll.seq_begin < t.start_seq {
                    continue;
                }
                if t.stop_seq.map(|s| s < poll.seq_begin).unwrap_or(false) {
                    continue;
                }
                let end_seq = trace.polls.get(pi + 1).map(|n| n.seq_begin).unwrap_or(u64::MAX);
                // packets of this transfer emitted up to the end of this poll
                let sent = t.pkts.iter().filter(|p| trace.pkts[**p].seq < end_seq).count();
                if sent >= t.pkts.len() {
                    continue; // nothing left
                }
                let due = t.start_us + (sent as u128 * target_us as u128 / nb as u128) as u64;
                if due + 2 <= poll.t_us {
                    violate(
                        ctx,
                        "C14/due-packet-not-sent",
                        "-",
                        format!(
                            "toi={} transfer {}: after draining at +{} us packet #{} was due at +{} us but is only emitted later",
                            toi, t.n, poll.t_us - t.start_us, sent, due - t.start_us
                        ),
                    );
                    break;
                }
            }
            ctx.borrow_mut().note("paced-transfers-checked");
        }
    }
}

pub fn run(scn: &Scn, ctx: &Ctx, scratch: &Path) {
    let drv = match Driver::new(&scn.sender, ctx, scratch) {
        Ok(d) => d,
        Err(e) => {
            ctx.borrow_mut().note(&format!("sender-build-failed:{}", truncate(&e, 40)));
            return;
        }
    };
    let trace = drv.run(&scn.sender);
    if trace.pkts.iter().any(|p| p.dec.toi != 0) {
        ctx.borrow_mut().nontrivial = true;
    }
    oracle(&scn.sender, ctx, &trace);
}

impl Prop for C14 {
    fn id(&self) -> &'static str {
        "C14"
    }
    fn info(&self) -> PropInfo {
        PropInfo {
            level: "exploration",
            rule: "seeded polling schedules on a discrete-event clock (fine grids down to 1 us, coarse jumps up to seconds, repeated instants, long stalls; each poll drains to None) x start times before/at/after now x carousel delay/interval incl. 0 x target duration / deadline incl. zero and past x sizes incl. 0 and 1 symbol x trigger_transfer_at. Oracle: transfers never start before the applicable start time, carousel gaps (at burst boundaries) never shorter than configured, packet i of a paced transfer not before start + i*target/source_packets (exact rational arithmetic, 1 us tolerance), and after a drained poll no paced packet is overdue; panics and loop-budget overruns are violations. Non-trivial: object packets emitted.",
            assumptions: vec!["Subscriber events carry the instants flute uses for transfer start/stop", "pacing tick = target / ceil(transfer_length / E) as documented in the code"],
            real: vec!["Sender and everything below"],
            stub: vec!["wall clock (caller-supplied time)", "poll schedule", "application timeline"],
        }
    }
    fn runs(&self, tier: Tier) -> u64 {
        match tier {
            Tier::Quick => 30_000,
            Tier::Thorough => 300_000,
        }
    }
    fn generate(&self, _idx: u64, tier: Tier, rng: &mut Rng) -> Value {
        serde_json::to_value(gen(rng, tier)).unwrap()
    }
    fn run(&self, scn: &Value, ctx: &Ctx, scratch: &Path) {
        match serde_json::from_value::<Scn>(scn.clone()) {
            Ok(s) => run(&s, ctx, scratch),
            Err(e) => ctx.borrow_mut().note(&format!("bad-scenario:{}", e)),
        }
    }
    fn shrink(&self, scn: &Value) -> Vec<Value> {
        let s: Scn = match serde_json::from_value(scn.clone()) {
            Ok(s) => s,
            Err(_) => return vec![],
        };
        shrink_sender_scn(&s.sender)
            .into_iter()
            .map(|c| serde_json::to_value(Scn { sender: c }).unwrap())
            .collect()
    }
}
