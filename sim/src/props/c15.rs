//! C15 — TOI allocation: non-zero, within the configured width, unique while live, wire-exact;
//! handles can be dropped from other threads (shuttle).

use super::sendview::*;
use crate::ctx::{violate, Ctx};
use crate::engine::*;
use crate::fdtview;
use crate::rng::Rng;
use crate::sdrv::*;
use crate::spec::*;
use serde::{Deserialize, Serialize};
use serde_json::Value;
use std::collections::BTreeMap;
use std::path::Path;

#[derive(Clone, Debug, PartialEq, Serialize, Deserialize)]
pub enum Scn {
    Sequential { sender: SenderScn },
    /// handles dropped by other threads under shuttle's seeded random / PCT scheduler
    Threads { width: ToiLen, initial: Option<String>, seed: Option<String>, workers: u32, per_worker: u32, pct: bool, iterations: u32, sched_seed: u64 },
}

pub struct C15;

fn max_of(w: ToiLen) -> u128 {
    (1u128 << w.bits()) - 1
}

pub fn gen(idx: u64, rng: &mut Rng, tier: Tier) -> Scn {
    let width = ToiLen::ALL[(idx % 6) as usize];
    let max = max_of(width);
    let initials: Vec<Option<u128>> = vec![
        Some(1),
        Some(0),
        Some(max - 2),
        Some(max - 1),
        Some(max),
        Some(max + 1),
        Some(max.wrapping_mul(3) + 5),
        Some(u128::MAX),
        Some(u128::MAX - 1),
        None,
        // the following allocations have 16-bit words that are zero (0x1_0000, 0x1_0000_0000, ...): the minimal
        // wire encoding of such values must not lose their upper bytes
        Some(0xFFFE),
        Some(0xFFFF_FFFE),
        Some(0xFFFF_FFFF_FFFE),
        Some((1u128 << 64) - 2),
        // every length class of the TOI field (2, 4, 6, ... 14 bytes), also the ones that are the maximum of no width
        Some((1u128 << 80) - 2),
        Some((1u128 << 80) + 5),
        Some(1u128 << 88),
        Some((1u128 << 96) - 3),
        Some((1u128 << 96) + 1),
        // a value of a random bit length inside the width
        Some({
            let bits = rng.range(1, width.bits() as u64) as u32;
            let v = (rng.next_u64() as u128) | ((rng.next_u64() as u128) << 64);
            ((v >> (128 - bits)) | (1u128 << (bits - 1))) & max
        }),
    ];
    let initial = initials[((idx / 6) % initials.len() as u64) as usize];
    // the random default: values a 128-bit draw can produce, incl. ones just below 2^128 and above the width
    let seeds: Vec<u128> = vec![1, 0, max, max + 7, u128::MAX, u128::MAX - 1, (1u128 << 112) + 3, (1u128 << 127) | 12345, rng.next_u64() as u128 | ((rng.next_u64() as u128) << 64)];
    let seed = if initial.is_none() { Some(seeds[rng.below(seeds.len() as u64) as usize]) } else { None };
    if idx % 10 == 9 {
        return Scn::Threads {
            width,
            initial: initial.map(|v| v.to_string()),
            seed: seed.map(|v| v.to_string()),
            workers: rng.range(1, 3) as u32,
            per_worker: rng.range(1, 4) as u32,
            pct: rng.chance(0.5),
            iterations: if tier == Tier::Quick { 60 } else { 300 },
            sched_seed: rng.next_u64(),
        };
    }
    let mut spec = SenderSpec::basic(OtiSpec::new(Scheme::NoCode, 1400, 64, 0, true));
    spec.toi_len = width;
    // the TSI shares the half-word flag of the LCT header with the TOI: every TSI field length next to every TOI length
    spec.tsi = *rng.pick(&[1u64, 1, 0xFFFF, 0x1_0000, 0xFFFF_FFFF, 0x1_0000_0000, (1u64 << 48) - 1]);
    spec.toi_initial = initial.map(|v| v.to_string());
    spec.toi_seed = seed.map(|v| v.to_string());
    spec.queues = vec![(0, 2)];
    spec.full_fdt = rng.chance(0.7);
    let depth = rng.range(3, 40) as usize;
    let mut ops = Vec::new();
    let mut objects: Vec<ObjectSpec> = Vec::new();
    let mut n_handles = 0usize;
    let mut t = 0u64;
    for _ in 0..depth {
        t += 1000;
        let when = When::AtUs(t);
        match rng.below(10) {
            0..=2 => {
                ops.push(TimedOp { when, op: Op::AllocToi });
                n_handles += 1;
            }
            3 => {
                if n_handles > 0 {
                    ops.push(TimedOp { when, op: Op::DropToi(rng.below(n_handles as u64) as usize) });
                }
            }
            4..=7 => {
                let i = objects.len();
                let mut o = ObjectSpec::basic(rng.range(0, 40) as usize, rng.next_u64(), i);
                o.oti = Some(OtiSpec::new(Scheme::NoCode, 16, 4, 0, rng.chance(0.5)));
                o.prio = 0;
                if n_handles > 0 && rng.chance(0.5) {
                    o.use_handle = Some(rng.below(n_handles as u64) as usize);
                }
                if rng.chance(0.2) {
                    o.carousel = Some(CarouselSpec::DelayMs(2));
                }
                objects.push(o);
                ops.push(TimedOp { when: when.clone(), op: Op::Add(i) });
                if rng.chance(0.8) {
                    ops.push(TimedOp { when, op: Op::Publish });
                }
            }
            8 => {
                if !objects.is_empty() {
                    ops.push(TimedOp { when, op: Op::Remove(rng.below(objects.len() as u64) as usize) });
                }
            }
            _ => {
                if rng.chance(0.3) {
                    ops.push(TimedOp { when, op: Op::PanicHoldingToi });
                } else {
                    ops.push(TimedOp { when, op: Op::Publish });
                }
            }
        }
    }
    // a full cycle of the 16-bit space while handles / objects stay live: the cursor comes back to TOIs
    // that are still in use (skip logic, wrap-around, early releases)
    if width.bits() == 16 && rng.chance(0.5) {
        let at = rng.below(ops.len() as u64 + 1) as usize;
        let when = if at < ops.len() { ops[at].when.clone() } else { When::AtUs(t + 500) };
        let n = 65_530 + rng.range(0, 12) as u32;
        ops.insert(at, TimedOp { when, op: Op::ChurnToi(n) });
        for _ in 0..rng.range(1, 4) {
            t += 1000;
            ops.push(TimedOp { when: When::AtUs(t), op: Op::AllocToi });
            n_handles += 1;
        }
        let _ = n_handles;
    }
    t += 1000;
    for (i, o) in objects.iter().enumerate() {
        if o.carousel.is_some() {
            ops.push(TimedOp { when: When::AtUs(t + 20_000), op: Op::Remove(i) });
        }
    }
    let poll = PollSpec {
        start_us: 0,
        gap: GapSpec::FixedUs(500),
        burst: Some(rng.range(1, 4) as u32),
        max_polls: 3000,
        max_pkts: 3000,
        idle_polls_after_done: 1,
    };
    Scn::Sequential { sender: SenderScn { spec, objects, ops, poll, snapshots: false } }
}

fn check_value(ctx: &Ctx, v: u128, width: ToiLen, what: &str) {
    if v == 0 {
        violate(ctx, "C15/toi-zero", "-", format!("{} returned TOI 0 (reserved for the FDT)", what));
    }
    if v > max_of(width) {
        violate(
            ctx,
            "C15/toi-exceeds-width",
            &format!("{}-bit", width.bits()),
            format!("{} returned TOI {} which does not fit the configured {} bits", what, v, width.bits()),
        );
    }
}

fn run_sequential(scn: &SenderScn, ctx: &Ctx, scratch: &Path) {
    let drv = match Driver::new(scn, ctx, scratch) {
        Ok(d) => d,
        Err(_) => return,
    };
    let trace = drv.run(scn);
    let width = scn.spec.toi_len;
    let tr = transfers(scn, &trace);
    // live intervals [from, until) in event-sequence space
    struct Live {
        toi: u128,
        from: u64,
        until: u64,
        what: String,
    }
    let mut live: Vec<Live> = Vec::new();
    // handles: allocated by AllocToi, released by DropToi or by being attached to an object
    let mut handle_alloc: Vec<(u64, u128)> = Vec::new();
    for r in &trace.ops {
        if let (Op::AllocToi, OpResult::Toi(v)) = (&r.op, &r.result) {
            handle_alloc.push((r.seq, *v));
            check_value(ctx, *v, width, "allocate_toi()");
        }
    }
    for (h, (seq, v)) in handle_alloc.iter().enumerate() {
        let mut until = u64::MAX;
        for r in &trace.ops {
            if r.seq <= *seq {
                continue;
            }
            match &r.op {
                Op::DropToi(i) if *i == h && r.result == OpResult::Done => until = until.min(r.seq),
                Op::Add(oi) if scn.objects[*oi].use_handle == Some(h) => until = until.min(r.seq),
                _ => {}
            }
        }
        live.push(Live { toi: *v, from: *seq, until, what: format!("handle #{}", h) });
    }
    for r in &trace.ops {
        if let (Op::Add(i), OpResult::Added(v)) = (&r.op, &r.result) {
            check_value(ctx, *v, width, "add_object()");
            if let Some(h) = scn.objects[*i].use_handle {
                // when the handle was still held the object must carry its value
                let held = handle_alloc.get(h).map(|(s, _)| *s < r.seq).unwrap_or(false)
                    && !trace.ops.iter().any(|x| {
                        x.seq < r.seq
                            && match &x.op {
                                Op::DropToi(j) => *j == h && x.result == OpResult::Done,
                                Op::Add(oj) => *oj != *i && scn.objects[*oj].use_handle == Some(h),
                                _ => false,
                            }
                    });
                if held && handle_alloc[h].1 != *v {
                    violate(ctx, "C15/handle-value-not-used", "-", format!("object {} was given handle #{} (TOI {}) but add_object returned {}", i, h, handle_alloc[h].1, v));
                }
            }
            // the object is live until it is removed / finished AND has stopped emitting
            let removed = removal_seq(&trace, *i);
            let mine: Vec<&Transfer> = tr.list.iter().filter(|t| t.obj == *i).collect();
            // (packets are attributed through the transfers: a TOI may be reused by a later object)
            let last_pkt = mine.iter().flat_map(|t| t.pkts.iter()).map(|p| trace.pkts[*p].seq).max();
            let finished = if scn.objects[*i].carousel.is_none() && mine.len() as u32 >= scn.objects[*i].max_transfer_count {
                mine.last().and_then(|t| t.stop_seq)
            } else {
                None
            };
            let until = match (removed, finished) {
                (Some(a), Some(f)) if f < a => f,
                (Some(a), _) => a.max(last_pkt.unwrap_or(0)),
                (None, Some(f)) => f,
                (None, None) => u64::MAX,
            };
            live.push(Live { toi: *v, from: r.seq, until, what: format!("object {}", i) });
        }
    }
    // values returned during a churn: non-zero, within the width, never a TOI that is live at that moment
    for (seq, values) in &trace.churn_values {
        let live_now: Vec<&Live> = live.iter().filter(|l| l.from < *seq && *seq < l.until).collect();
        let mut reported = false;
        for (k, v) in values.iter().enumerate() {
            if *v == 0 || *v > max_of(width) {
                check_value(ctx, *v, width, &format!("allocate_toi() #{} of a churn of {}", k, values.len()));
                reported = true;
            }
            if let Some(l) = live_now.iter().find(|l| l.toi == *v) {
                violate(
                    ctx,
                    "C15/toi-not-unique-while-live",
                    &format!("{}-bit", width.bits()),
                    format!("TOI {} returned by allocation #{} of a churn of {} at event {} while {} (since event {}) is still live", v, k, values.len(), seq, l.what, l.from),
                );
                reported = true;
            }
            if reported {
                break;
            }
        }
        ctx.borrow_mut().count_fault("toi-space-full-cycle");
    }
    // a live TOI is reserved: at every sample the allocator holds at least as many reservations as there
    // are live handles and objects (a TOI becomes reusable only after its handle or object was released)
    for (seq, reserved) in &trace.toi_reserved_samples {
        let n_live = live.iter().filter(|l| l.from <= *seq && *seq < l.until).count();
        if *reserved < n_live {
            let who: Vec<String> = live.iter().filter(|l| l.from <= *seq && *seq < l.until).map(|l| format!("{}={}", l.what, l.toi)).collect();
            violate(
                ctx,
                "C15/live-toi-not-reserved",
                &format!("{}-bit", width.bits()),
                format!("at event {} only {} TOIs are reserved in the allocator but {} are live: {}", seq, reserved, n_live, who.join(", ")),
            );
            break;
        }
    }
    // uniqueness while live
    for (a, x) in live.iter().enumerate() {
        for y in live.iter().skip(a + 1) {
            if x.toi != y.toi {
                continue;
            }
            // an object that took over a handle's value continues that handle
            let (first, second) = if x.from <= y.from { (x, y) } else { (y, x) };
            if second.from < first.until {
                violate(
                    ctx,
                    "C15/toi-not-unique-while-live",
                    &format!("{}-bit", width.bits()),
                    format!(
                        "TOI {} given to {} at event {} while {} (since event {}) is still live",
                        x.toi, second.what, second.from, first.what, first.from
                    ),
                );
            }
        }
    }
    // wire exactness: every object packet carries a TOI that was returned, every started object is on the wire with its value, FDT entries too
    let returned: BTreeMap<u128, usize> = trace.obj_toi.iter().enumerate().filter_map(|(i, t)| t.map(|t| (t, i))).collect();
    for p in &trace.pkts {
        if p.dec.toi != 0 && !returned.contains_key(&p.dec.toi) {
            violate(
                ctx,
                "C15/wire-toi-differs",
                &format!("{}-bit", width.bits()),
                format!("packet {} carries TOI {} ({} bytes on the wire) which add_object never returned (returned: {:?})", p.idx, p.dec.toi, p.dec.toi_len, returned.keys().collect::<Vec<_>>()),
            );
            break;
        }
    }
    for t in &tr.list {
        if t.stop_seq.is_some() && !trace.pkts.iter().any(|p| p.dec.toi == t.toi) {
            violate(ctx, "C15/wire-toi-differs", "no-packet", format!("object {} (TOI {}) completed a transfer but no packet carries its TOI", t.obj, t.toi));
        }
    }
    for tx in fdtview::fdt_transmissions(&trace.pkts) {
        if let Some(d) = &tx.doc {
            for f in &d.files {
                if !returned.contains_key(&f.toi) {
                    violate(
                        ctx,
                        "C15/fdt-toi-differs",
                        "-",
                        format!("FDT instance {} lists TOI {} which add_object never returned", tx.instance_id, f.toi_raw),
                    );
                }
            }
        }
    }
    // reserved set = live set: once the sender has drained and no object is left, exactly the handles
    // the application still holds are reserved (a leaked reservation makes a TOI unusable for ever, a
    // lost one lets it be handed out twice)
    if trace.finished && trace.toi_reserved_at_end != trace.handles_held_at_end {
        violate(
            ctx,
            "C15/reserved-set-differs-from-live-set",
            &format!("{}-bit", width.bits()),
            format!(
                "at the end {} TOIs are reserved in the allocator but the application holds {} handles and the sender has no object left",
                trace.toi_reserved_at_end, trace.handles_held_at_end
            ),
        );
    }
    if !handle_alloc.is_empty() || !returned.is_empty() {
        ctx.borrow_mut().nontrivial = true;
    }
}

struct SendWrap<T>(T);
// The compile-time Send requirement is checked by the separate `send_probe` binary; this wrapper
// only keeps the harness itself compiling whatever flute does.
unsafe impl<T> Send for SendWrap<T> {}

fn shuttle_yield() {
    shuttle::thread::yield_now();
}

fn run_threads(
    ctx: &Ctx,
    width: ToiLen,
    initial: Option<u128>,
    seed: Option<u128>,
    workers: u32,
    per_worker: u32,
    pct: bool,
    iterations: u32,
    sched_seed: u64,
) {
    use std::sync::{Arc, Mutex};
    let failure: Arc<Mutex<Option<String>>> = Arc::new(Mutex::new(None));
    let f2 = failure.clone();
    let scenario = move || {
        let mut spec = SenderSpec::basic(OtiSpec::new(Scheme::NoCode, 1400, 64, 0, true));
        spec.toi_len = width;
        spec.toi_initial = initial.map(|v| v.to_string());
        spec.toi_seed = seed.map(|v| v.to_string());
        let mut sender = spec.build().unwrap();
        // a first batch of handles that other threads will drop
        let mut batches: Vec<Vec<SendWrap<Box<flute::sender::Toi>>>> = Vec::new();
        let mut held: Vec<u128> = Vec::new();
        for _ in 0..workers {
            let mut b = Vec::new();
            for _ in 0..per_worker {
                let t = sender.allocate_toi();
                held.push(t.get());
                b.push(SendWrap(t));
            }
            batches.push(b);
        }
        let dropped = Arc::new(Mutex::new(Vec::<u128>::new()));
        let mut joins = Vec::new();
        for b in batches {
            let d = dropped.clone();
            joins.push(shuttle::thread::spawn(move || {
                for h in b {
                    let v = h.0.get();
                    drop(h);
                    d.lock().unwrap().push(v);
                    shuttle::thread::yield_now();
                }
            }));
        }
        // meanwhile the main thread keeps allocating: every value must differ from every handle that is
        // still held (not yet reported dropped) and from its own live ones
        let mut mine: Vec<Box<flute::sender::Toi>> = Vec::new();
        for _ in 0..(workers * per_worker + 2) {
            let t = sender.allocate_toi();
            let v = t.get();
            let gone = dropped.lock().unwrap().clone();
            let still: Vec<u128> = held.iter().copied().filter(|x| !gone.contains(x)).collect();
            if v == 0 || still.contains(&v) || mine.iter().any(|m| m.get() == v) {
                let mut f = f2.lock().unwrap();
                if f.is_none() {
                    *f = Some(format!("allocate_toi() returned {} while handles {:?} are still held by other threads and {:?} by this one", v, still, mine.iter().map(|m| m.get()).collect::<Vec<_>>()));
                }
            }
            mine.push(t);
            shuttle::thread::yield_now();
        }
        for j in joins {
            j.join().unwrap();
        }
        // after the join every dropped value is free again and every live one still reserved:
        // allocate a full lap worth of values on a small space would be too slow; instead check
        // that a second round of allocations never collides with what this thread still holds
        for _ in 0..4 {
            let t = sender.allocate_toi();
            if mine.iter().any(|m| m.get() == t.get()) {
                let mut f = f2.lock().unwrap();
                if f.is_none() {
                    *f = Some(format!("after join allocate_toi() returned {} which is still held", t.get()));
                }
            }
            mine.push(t);
        }
        // reserved set = live set: every handle dropped by the other threads is free again
        let reserved = sender.verif_toi_reserved_count();
        if reserved != mine.len() {
            let mut f = f2.lock().unwrap();
            if f.is_none() {
                *f = Some(format!("after all other threads dropped their handles {} TOIs are reserved but only {} handles are alive (a release was lost or a reservation duplicated)", reserved, mine.len()));
            }
        }
    };
    flute::verif::sync::set_yield_hook(Some(shuttle_yield));
    let r = std::panic::catch_unwind(std::panic::AssertUnwindSafe(|| {
        if pct {
            let sch = shuttle::scheduler::PctScheduler::new_from_seed(sched_seed, 3, iterations as usize);
            shuttle::Runner::new(sch, Default::default()).run(scenario);
        } else {
            let sch = shuttle::scheduler::RandomScheduler::new_from_seed(sched_seed, iterations as usize);
            shuttle::Runner::new(sch, Default::default()).run(scenario);
        }
    }));
    flute::verif::sync::set_yield_hook(None);
    ctx.borrow_mut().count_fault(if pct { "thread-schedule-pct" } else { "thread-schedule-random" });
    ctx.borrow_mut().note_n("shuttle-schedules", iterations as u64);
    ctx.borrow_mut().nontrivial = true;
    if let Some(m) = failure.lock().unwrap().clone() {
        violate(ctx, "C15/toi-not-unique-across-threads", &format!("{}-bit", width.bits()), m);
    }
    if r.is_err() {
        violate(
            ctx,
            "C15/panic-under-thread-schedule",
            "-",
            format!("a shuttle schedule (scheduler seed {}, pct={}) panicked inside the TOI allocator scenario", sched_seed, pct),
        );
    }
}

pub fn run(scn: &Scn, ctx: &Ctx, scratch: &Path) {
    match scn {
        Scn::Sequential { sender } => run_sequential(sender, ctx, scratch),
        Scn::Threads { width, initial, seed, workers, per_worker, pct, iterations, sched_seed } => run_threads(
            ctx,
            *width,
            initial.as_ref().map(|s| s.parse().unwrap_or(1)),
            seed.as_ref().map(|s| s.parse().unwrap_or(1)),
            *workers,
            *per_worker,
            *pct,
            *iterations,
            *sched_seed,
        ),
    }
}

impl Prop for C15 {
    fn id(&self) -> &'static str {
        "C15"
    }
    fn info(&self) -> PropInfo {
        PropInfo {
            level: "exploration",
            rule: "sequential part: seeded histories (3-40 operations) of allocate_toi / drop handle / add_object with or without a handle / remove_object / publish / read, for each TOI width (16, 32, 48, 64, 80, 112 bits) x initial values {1, 0, max-2, max-1, max, max+1, values far above the width, 2^128-1, None with a simulator-supplied 128-bit 'random' default}; oracle: every returned TOI is non-zero, fits the width, differs from every TOI whose handle is still held or whose object is still listed or emitting (live-interval model), and is the TOI on the wire and in the FDT (independent decoder). Thread part (10% of runs): the handles are dropped by 1-3 other threads while the main thread keeps allocating, under shuttle's seeded random and PCT schedulers (every lock/unlock of the allocator mutex is a scheduling point through hook H4), 60-300 schedules per run. A separate compile-time probe (send_probe binary) asserts Sender: Send and Box<Toi>: Send. Non-trivial: at least one TOI was allocated.",
            assumptions: vec!["hook H4 (mutex wrapper yielding to the scheduler) is faithful", "live-interval model: an object is live until removed/finished and no longer emitting"],
            real: vec!["Sender, Fdt, ToiAllocator, Toi::drop"],
            stub: vec!["thread scheduler (shuttle)", "OS randomness for the initial TOI (hook H2)", "application timeline"],
        }
    }
    fn runs(&self, tier: Tier) -> u64 {
        match tier {
            Tier::Quick => 30_000,
            Tier::Thorough => 120_000,
        }
    }
    fn generate(&self, idx: u64, tier: Tier, rng: &mut Rng) -> Value {
        serde_json::to_value(gen(idx, rng, tier)).unwrap()
    }
    fn run(&self, scn: &Value, ctx: &Ctx, scratch: &Path) {
        match serde_json::from_value::<Scn>(scn.clone()) {
            Ok(s) => run(&s, ctx, scratch),
            Err(e) => ctx.borrow_mut().note(&format!("bad-scenario:{}", e)),
        }
    }
    fn shrink(&self, scn: &Value) -> Vec<Value> {
        let s: Scn = match serde_json::from_value(scn.clone()) {
            Ok(s) => s,
            Err(_) => return vec![],
        };
        match s {
            Scn::Sequential { sender } => super::common::shrink_sender_scn(&sender)
                .into_iter()
                .filter(|c| c.objects.len() == sender.objects.len())
                .map(|c| serde_json::to_value(Scn::Sequential { sender: c }).unwrap())
                .collect(),
            Scn::Threads { width, initial, seed, workers, per_worker, pct, iterations, sched_seed } => {
                let mut out = Vec::new();
                if workers > 1 {
                    out.push(Scn::Threads { width, initial: initial.clone(), seed: seed.clone(), workers: workers - 1, per_worker, pct, iterations, sched_seed });
                }
                if per_worker > 1 {
                    out.push(Scn::Threads { width, initial: initial.clone(), seed: seed.clone(), workers, per_worker: per_worker - 1, pct, iterations, sched_seed });
                }
                out.into_iter().map(|s| serde_json::to_value(s).unwrap()).collect()
            }
        }
    }
}
