//! C04 — untrusted input: no packet sequence can panic, hang or blow up the receiver; a rejected
//! packet leaves the receiver usable.

use super::session::*;
use crate::alloc;
use crate::ctx::{violate, Ctx};
use crate::engine::*;
use crate::monitor::*;
use crate::monitor::NullBuilder;
use crate::rdrv::*;
use crate::rng::Rng;
use crate::sdrv::*;
use crate::spec::*;
use crate::wire::{self, Build};
use serde::{Deserialize, Serialize};
use serde_json::Value;
use std::path::Path;

pub const ALLOC_LIMIT: usize = 64 << 20;

#[derive(Clone, Debug, PartialEq, Serialize, Deserialize)]
pub enum FieldEdit {
    HdrLen(u8),
    Flags0(u8),
    Flags1(u8),
    Codepoint(u8),
    Toi(String),
    Tsi(u64),
    Sbn(u32),
    Esi(u32),
    Sbl(u32),
    FtiTransferLength(u64),
    FtiE(u32),
    FtiB(u32),
    FtiMaxN(u32),
    FtiZ(u32),
    FtiN(u32),
    FtiAl(u32),
    FtiFec(u8),
    FdtId(u32),
    FdtVersion(u8),
    Cenc(u8),
    DropFti,
    DropFdtExt,
    /// replace EXT_TIME by a raw extension (HET 2) with these bytes after HET
    RawTimeExt(Vec<u8>),
    /// add an unknown extension: (het, bytes after het)
    AddExt(u8, Vec<u8>),
    CloseObject(bool),
    CloseSession(bool),
    PayloadLen(usize),
}

#[derive(Clone, Debug, PartialEq, Serialize, Deserialize)]
pub enum FaultKind {
    Raw(Vec<u8>),
    MutByte { pkt: usize, pos: usize, val: u8 },
    /// one payload byte of an OBJECT packet (the `back`-th from the end) is altered: header, extensions and payload id
    /// stay what the sender wrote
    MutPayload { pkt: usize, back: usize, xor: u8 },
    /// the first FDT packet at or after the index is REPLACED by a copy whose payload starts with garbage: the instance
    /// cannot be decoded (rejected), its instance id must not stay poisoned for the retransmission
    BreakFdt { pkt: usize },
    Truncate { pkt: usize, len: usize },
    Extend { pkt: usize, extra: Vec<u8> },
    Splice { a: usize, b: usize, cut_a: usize, cut_b: usize },
    Field { pkt: usize, edits: Vec<FieldEdit> },
    /// a crafted FDT instance carrying this XML
    Fdt { xml: String, instance: u32, e: usize },
    /// all 65536 three-byte datagrams starting with this byte (plus, for b0 = 0, all shorter ones)
    ShortDatagrams { b0: u8 },
    /// every value of the byte at `pos` of packet `pkt`
    AllValues { pkt: usize, pos: usize },
    /// every value of the byte at `pos` of a foreign (harness-encoded) packet, after pushing `context`
    AllValuesForeign { context: Vec<Vec<u8>>, pkt: Vec<u8>, pos: usize },
    /// fresh receivers: the session's own FDT with ONE attribute rewritten arrives first (the object then takes
    /// its parameters from it), then the object packets; every value of the list for the attribute
    HostileFdtFirst { attr: String },
}

#[derive(Clone, Debug, PartialEq, Serialize, Deserialize)]
pub struct Fault {
    /// injected before valid packet `at` (0..=n)
    pub at: usize,
    pub kind: FaultKind,
}

#[derive(Clone, Debug, PartialEq, Serialize, Deserialize)]
pub struct Scn {
    pub sender: SenderScn,
    pub recv: RecvSpec,
    pub faults: Vec<Fault>,
    /// enumerations: give EVERY substituted value its own fresh receiver (thorough); otherwise only
    /// when the packet is the first one of its object / FDT instance (where header fields define state)
    #[serde(default)]
    pub fresh_all: bool,
}

pub struct C04;

pub fn corpus() -> Vec<SenderScn> {
    let mut v = Vec::new();
    for scheme in Scheme::ALL {
        for inband in [true, false] {
            for cenc in [CencSpec::Null, CencSpec::Gzip, CencSpec::Deflate] {
                if cenc == CencSpec::Deflate && !(scheme == Scheme::NoCode && inband) {
                    continue;
                }
                let (b, e): (u32, u16) = if scheme == Scheme::Raptor { (4, 16) } else { (3, 16) };
                // the FDT uses the sender-wide OTI: alternate schemes there too
                let soti = match (scheme, inband) {
                    (Scheme::Rs28, false) => OtiSpec::new(Scheme::Rs28, 512, 4, 1, true),
                    (Scheme::RaptorQ, false) => OtiSpec::new(Scheme::RaptorQ, 512, 4, 1, true),
                    (Scheme::Rs28Us, false) => OtiSpec::new(Scheme::Rs28Us, 512, 4, 1, true),
                    (Scheme::Raptor, false) => OtiSpec::new(Scheme::Raptor, 64, 64, 1, true),
                    _ => OtiSpec::new(Scheme::NoCode, 1400, 64, 0, true),
                };
                let mut spec = SenderSpec::basic(soti);
                spec.interleave = 2;
                spec.queues = vec![(0, 2)];
                spec.tsi = 7;
                spec.fdt_cenc = if scheme == Scheme::Rs28 && inband { CencSpec::Zlib } else { CencSpec::Null };
                let mut o = ObjectSpec::basic(2 * b as usize * e as usize + 5, 0xC04 + v.len() as u64, 0);
                o.kind = ContentKind::Text;
                o.oti = Some(OtiSpec::new(scheme, e, b, if scheme == Scheme::NoCode { 0 } else { 1 }, inband));
                o.cenc = cenc;
                o.inband_cenc = inband;
                let mut o2 = ObjectSpec::basic(0, 1, 1);
                o2.oti = o.oti.clone();
                let mut poll = PollSpec::simple(1000);
                poll.idle_polls_after_done = 0;
                v.push(SenderScn {
                    spec,
                    objects: vec![o, o2],
                    ops: vec![
                        TimedOp { when: When::AtUs(0), op: Op::Add(0) },
                        TimedOp { when: When::AtUs(0), op: Op::Add(1) },
                        TimedOp { when: When::AtUs(0), op: Op::Publish },
                    ],
                    poll,
                    snapshots: false,
                });
            }
        }
    }
    v
}

/// Packets a flute sender never emits: the Reed-Solomon GF(2^m) scheme (FEC 2, parsed but not implemented)
/// with and without FDT, written by the harness encoder. (context, packet)
pub fn foreign() -> Vec<(Vec<Vec<u8>>, Vec<u8>)> {
    let tsi = 7u64;
    let mk = |toi: u128, esi: u32, with_fti: bool| -> Vec<u8> {
        let (tl, ol) = wire::field_lens(tsi, toi);
        wire::encode(&Build {
            cci_words: 1,
            tsi,
            tsi_len: tl,
            toi,
            toi_len: ol,
            cp: wire::FEC_RS2M,
            fti: if with_fti {
                Some(wire::Fti { fec: wire::FEC_RS2M, transfer_length: 64, e: 16, b: Some(4), max_n: Some(6), instance_id: None, z: Some(8), n: Some(1), al: None })
            } else {
                None
            },
            sbn: 0,
            esi,
            payload: vec![0x44; 16],
            ..Default::default()
        })
    };
    let xml = "<?xml version=\"1.0\" encoding=\"UTF-8\"?><FDT-Instance xmlns=\"urn:IETF:metadata:2005:FLUTE:FDT\" Expires=\"4000000000\"><File TOI=\"9\" Content-Location=\"file:///gf2m\" Content-Length=\"64\" Transfer-Length=\"64\" FEC-OTI-FEC-Encoding-ID=\"2\" FEC-OTI-Maximum-Source-Block-Length=\"4\" FEC-OTI-Encoding-Symbol-Length=\"16\" FEC-OTI-Max-Number-of-Encoding-Symbols=\"6\" FEC-OTI-Scheme-Specific-Info=\"CAE=\"/></FDT-Instance>";
    let fdt = wire::packetise_fdt(xml.as_bytes(), tsi, 77, 1400, None, None);
    vec![
        (vec![], mk(8, 0, true)),
        (vec![mk(8, 0, true)], mk(8, 1, true)),
        (fdt.clone(), mk(9, 0, false)),
        (fdt.clone(), mk(9, 1, true)),
    ]
}

const HDR_POS_MAX: u64 = 72; // header region positions enumerated per packet
const PKT_MAX: u64 = 24;

const FDT_ATTRS: [&str; 10] = [
    "Expires",
    "FEC-OTI-Scheme-Specific-Info",
    "FEC-OTI-Encoding-Symbol-Length",
    "FEC-OTI-Maximum-Source-Block-Length",
    "FEC-OTI-Max-Number-of-Encoding-Symbols",
    "FEC-OTI-FEC-Encoding-ID",
    "FEC-OTI-FEC-Instance-ID",
    "Transfer-Length",
    "Content-Length",
    "Content-Encoding",
];

/// Values tried for an FDT attribute (the original value `orig` gives the neighbours).
fn fdt_attr_values(attr: &str, orig: &str) -> Vec<String> {
    use base64::Engine;
    let mut v: Vec<String> = Vec::new();
    match attr {
        "FEC-OTI-Scheme-Specific-Info" => {
            let raw = base64::engine::general_purpose::STANDARD.decode(orig).unwrap_or_default();
            for i in 0..raw.len() {
                for x in [0u8, 1, 2, 255] {
                    let mut r = raw.clone();
                    r[i] = x;
                    v.push(base64::engine::general_purpose::STANDARD.encode(&r));
                }
            }
            for s in ["", "AA==", "AAAAAA==", "//////8=", "!!!!"] {
                v.push(s.to_string());
            }
        }
        "Content-Encoding" => v.extend(["gzip", "zlib", "deflate", "null", "bogus", ""].iter().map(|s| s.to_string())),
        // (NTP seconds: before 1970, the 1970 boundary, beyond 32 bits, not a number)
        "Expires" => v.extend(["0", "1", "2208988799", "2208988800", "2208988801", "4294967295", "4294967296", "9999999999", "18446744073709551616", "-1", "", "abc", " 7 ", "1e9"].iter().map(|s| s.to_string())),
        "FEC-OTI-FEC-Encoding-ID" => v.extend(["0", "1", "2", "3", "5", "6", "128", "129", "255", "256", "-1"].iter().map(|s| s.to_string())),
        _ => {
            let n: i128 = orig.parse().unwrap_or(0);
            for d in [-1i128, 1, 2, 3] {
                v.push((n + d).max(0).to_string());
            }
            for s in ["0", "1", "2", "3", "255", "256", "65535", "65536", "4294967295", "4294967296", "18446744073709551615", "18446744073709551616", "-1", "", "abc"] {
                v.push(s.to_string());
            }
            v.push((n * 2).to_string());
            v.push((n / 2).to_string());
        }
    }
    v.retain(|x| x != orig);
    v.dedup();
    v
}

fn n_enum() -> u64 {
    256 + corpus().len() as u64 * PKT_MAX * HDR_POS_MAX + foreign().len() as u64 * 48 + corpus().len() as u64 * FDT_ATTRS.len() as u64
}

pub fn hostile_xml(rng: &mut Rng, base: &str) -> String {
    let nums = [
        "0", "1", "-1", "255", "256", "65535", "65536", "4294967295", "4294967296",
        "18446744073709551615", "18446744073709551616", "340282366920938463463374607431768211456",
        "abc", "", " 7 ", "1e9", "0x10",
    ];
    let attrs = [
        "TOI", "Content-Length", "Transfer-Length", "Expires", "FEC-OTI-FEC-Encoding-ID",
        "FEC-OTI-FEC-Instance-ID", "FEC-OTI-Maximum-Source-Block-Length", "FEC-OTI-Encoding-Symbol-Length",
        "FEC-OTI-Max-Number-of-Encoding-Symbols", "FEC-OTI-Scheme-Specific-Info", "Content-Encoding",
        "Content-MD5", "Content-Location", "Content-Type", "Complete",
    ];
    let mut s = base.to_string();
    for _ in 0..rng.range(1, 3) {
        let a = *rng.pick(&attrs);
        let v = match a {
            "Content-Encoding" => rng.pick(&["gzip", "zlib", "deflate", "null", "bogus", ""]).to_string(),
            "FEC-OTI-Scheme-Specific-Info" => rng.pick(&["AAAAAA==", "AAEBBA==", "!!!!", "", "AA==", "//////8="]).to_string(),
            "Content-MD5" => rng.pick(&["AAAA", "", "1B2M2Y8AsgTpgAmY7PhCfg==", "%%%"]).to_string(),
            "Content-Location" => rng.pick(&["file:///x", "../../etc/passwd", "", "a:b", "//h/p", "\u{0}"]).to_string(),
            "Content-Type" => "x".repeat(rng.range(0, 2000) as usize),
            "Complete" => rng.pick(&["true", "false", "1", "maybe"]).to_string(),
            "FEC-OTI-FEC-Encoding-ID" => rng.pick(&["0", "1", "2", "3", "5", "6", "129", "128", "255", "256", "-1"]).to_string(),
            _ => rng.pick(&nums).to_string(),
        };
        // rewrite the first occurrence of the attribute, or add it to the first File / root element
        let needle = format!("{}=\"", a);
        let pos = if rng.chance(0.5) { s.find(&needle) } else { s.rfind(&needle) };
        if let Some(p) = pos {
            let st = p + needle.len();
            if let Some(en) = s[st..].find('"') {
                s.replace_range(st..st + en, &v);
            }
        } else if let Some(p) = s.find("<File ") {
            s.insert_str(p + 6, &format!("{}=\"{}\" ", a, v));
        }
    }
    match rng.below(12) {
        0 => {
            // deep nesting
            let depth = *rng.pick(&[50usize, 500, 5000]);
            let open = "<File TOI=\"9\" Content-Location=\"a\">".repeat(depth);
            let close = "</File>".repeat(depth);
            s = s.replace("</FDT-Instance>", &format!("{}{}</FDT-Instance>", open, close));
        }
        1 => s = s.replace("<File ", "<File &bogus; "),
        2 => s.truncate((s.len() as u64 * rng.range(1, 99) / 100) as usize),
        3 => s = s.replace("Content-Location=\"", "Content-Location=\"&#x0;&#xFFFFFFFF;&lol;"),
        4 => {
            // many files
            let many: String = (0..rng.range(10, 2000)).map(|i| format!("<File TOI=\"{}\" Content-Location=\"f{}\" Content-Length=\"1\" Transfer-Length=\"1\"/>", 1000 + i, i)).collect();
            s = s.replace("</FDT-Instance>", &format!("{}</FDT-Instance>", many));
        }
        5 => s = format!("<!DOCTYPE x [<!ENTITY a \"aaaaaaaaaa\"><!ENTITY b \"&a;&a;&a;&a;&a;&a;&a;&a;\">]>{}", s.replace("Content-Type=\"", "Content-Type=\"&b;&b;&b;")),
        _ => {}
    }
    s
}

fn gen_field_edits(rng: &mut Rng) -> Vec<FieldEdit> {
    let big32 = [0u32, 1, 2, 255, 256, 65535, 65536, 0xFFFFFF, 0x7FFFFFFF, 0xFFFFFFFF];
    let mut v = Vec::new();
    for _ in 0..rng.range(1, 3) {
        v.push(match rng.below(27) {
            0 => FieldEdit::HdrLen(rng.below(256) as u8),
            1 => FieldEdit::Flags0(rng.below(256) as u8),
            2 => FieldEdit::Flags1(rng.below(256) as u8),
            3 => FieldEdit::Codepoint(*rng.pick(&[0u8, 1, 2, 3, 5, 6, 128, 129, 255])),
            4 => FieldEdit::Toi(rng.pick(&["0", "1", "2", "65535", "65536", "281474976710655", "5192296858534827628530496329220095"]).to_string()),
            5 => FieldEdit::Tsi(*rng.pick(&[0u64, 1, 7, 8, 65535, 65536, 0xFFFFFFFFFFFF])),
            6 => FieldEdit::Sbn(*rng.pick(&big32)),
            7 => FieldEdit::Esi(*rng.pick(&big32)),
            8 => FieldEdit::Sbl(*rng.pick(&big32)),
            9 => FieldEdit::FtiTransferLength(*rng.pick(&[0u64, 1, 15, 16, 17, 1 << 20, 1 << 32, (1 << 40) - 1, (1 << 48) - 1])),
            10 => FieldEdit::FtiE(*rng.pick(&[0u32, 1, 2, 15, 16, 17, 1400, 65535])),
            11 => FieldEdit::FtiB(*rng.pick(&big32)),
            12 => FieldEdit::FtiMaxN(*rng.pick(&[0u32, 1, 2, 3, 4, 255, 65535])),
            13 => FieldEdit::FtiZ(*rng.pick(&[0u32, 1, 2, 255, 65535])),
            14 => FieldEdit::FtiN(*rng.pick(&[0u32, 1, 2, 255, 65535])),
            15 => FieldEdit::FtiAl(*rng.pick(&[0u32, 1, 3, 4, 5, 255])),
            16 => FieldEdit::FtiFec(*rng.pick(&[0u8, 1, 2, 5, 6, 129])),
            17 => FieldEdit::FdtId(*rng.pick(&[0u32, 1, 2, 0xFFFFE, 0xFFFFF])),
            18 => FieldEdit::FdtVersion(rng.below(16) as u8),
            19 => FieldEdit::Cenc(rng.below(256) as u8),
            20 => FieldEdit::DropFti,
            21 => FieldEdit::DropFdtExt,
            22 => FieldEdit::RawTimeExt({
                let hel = *rng.pick(&[0u8, 1, 2, 3, 4, 63, 64, 65, 255]);
                let mut b = vec![hel, rng.below(256) as u8, rng.below(256) as u8];
                let k = rng.range(0, 16) as usize;
                b.extend(rng.bytes(k));
                b
            }),
            23 => FieldEdit::AddExt(*rng.pick(&[0u8, 1, 3, 63, 65, 127, 128, 191, 194, 255]), {
                let hel = *rng.pick(&[0u8, 1, 2, 3, 64, 65, 255]);
                let mut b = vec![hel];
                let k = *rng.pick(&[2usize, 2, 6, 10, 3, 0]);
                b.extend(rng.bytes(k));
                b
            }),
            24 => FieldEdit::CloseObject(rng.chance(0.5)),
            25 => FieldEdit::CloseSession(rng.chance(0.5)),
            _ => FieldEdit::PayloadLen(*rng.pick(&[0usize, 1, 15, 16, 17, 64, 1500, 9000])),
        });
    }
    v
}

pub fn gen(idx: u64, rng: &mut Rng, tier: Tier) -> Scn {
    let corp = corpus();
    let mut recv = RecvSpec::basic();
    recv.cache_size = Some(64 * 1024);
    recv.object_timeout_ms = Some(10_000);
    recv.max_objects_error = 4;
    if idx < 256 {
        return Scn {
            sender: corp[(idx % corp.len() as u64) as usize].clone(),
            recv,
            faults: vec![Fault { at: (idx % 5) as usize, kind: FaultKind::ShortDatagrams { b0: idx as u8 } }],
            fresh_all: false,
        };
    }
    let n_own = 256 + corp.len() as u64 * PKT_MAX * HDR_POS_MAX;
    if idx >= n_own && idx < n_own + foreign().len() as u64 * 48 {
        let k = idx - n_own;
        let f = foreign();
        let (context, pkt) = f[(k / 48) as usize].clone();
        return Scn {
            sender: corp[0].clone(),
            recv,
            faults: vec![Fault { at: 1, kind: FaultKind::AllValuesForeign { context, pkt, pos: (k % 48) as usize } }],
            fresh_all: true,
        };
    }
    let n_foreign = n_own + foreign().len() as u64 * 48;
    if idx >= n_foreign && idx < n_enum() {
        let k = idx - n_foreign;
        return Scn {
            sender: corp[(k / FDT_ATTRS.len() as u64) as usize].clone(),
            recv,
            faults: vec![Fault { at: 0, kind: FaultKind::HostileFdtFirst { attr: FDT_ATTRS[(k % FDT_ATTRS.len() as u64) as usize].to_string() } }],
            fresh_all: false,
        };
    }
    if idx < n_own {
        let k = idx - 256;
        let s = (k / (PKT_MAX * HDR_POS_MAX)) as usize;
        let pkt = ((k / HDR_POS_MAX) % PKT_MAX) as usize;
        let pos = (k % HDR_POS_MAX) as usize;
        return Scn {
            sender: corp[s].clone(),
            recv,
            faults: vec![Fault { at: pkt, kind: FaultKind::AllValues { pkt, pos } }],
            fresh_all: tier == Tier::Thorough,
        };
    }
    // sampled mutation sequences of whole sessions
    let mut sender = corp[rng.below(corp.len() as u64) as usize].clone();
    if rng.chance(0.3) {
        sender.objects[0].len = rng.range(0, 3000) as usize;
    }
    if rng.chance(0.3) {
        sender.objects[0].max_transfer_count = 2;
    }
    recv.md5_check = rng.chance(0.7);
    recv.receive_once = rng.chance(0.7);
    recv.max_objects_error = *rng.pick(&[0usize, 1, 4]);
    recv.cache_size = Some(*rng.pick(&[1024usize, 64 * 1024]));
    if rng.chance(0.08) {
        // nothing but altered payloads of object packets, MD5 announced and checked: the object fails as a whole, the
        // retransmission of the valid session delivers it
        recv.md5_check = true;
        for o in sender.objects.iter_mut() {
            o.md5 = true;
        }
        let faults = (0..rng.range(1, 3)).map(|_| Fault { at: rng.below(40) as usize, kind: FaultKind::MutPayload { pkt: rng.below(40) as usize, back: rng.below(2000) as usize, xor: rng.below(256) as u8 } }).collect();
        return Scn { sender, recv, faults, fresh_all: false };
    }
    if rng.chance(0.06) {
        // nothing but one garbled FDT packet of the session's own instance
        let faults = vec![Fault { at: 0, kind: FaultKind::BreakFdt { pkt: rng.below(6) as usize } }];
        return Scn { sender, recv, faults, fresh_all: false };
    }
    let nf = rng.range(1, 50) as usize;
    let mut faults = Vec::new();
    let base_xml = "<?xml version=\"1.0\" encoding=\"UTF-8\"?><FDT-Instance xmlns=\"urn:IETF:metadata:2005:FLUTE:FDT\" Expires=\"4000000000\" FEC-OTI-FEC-Encoding-ID=\"0\" FEC-OTI-Maximum-Source-Block-Length=\"64\" FEC-OTI-Encoding-Symbol-Length=\"16\"><File TOI=\"1\" Content-Location=\"file:///a\" Content-Length=\"101\" Transfer-Length=\"101\" Content-Type=\"t\"/><File TOI=\"2\" Content-Location=\"file:///b\" Content-Length=\"0\" Transfer-Length=\"0\"/></FDT-Instance>";
    for _ in 0..nf {
        let pkt = rng.below(40) as usize;
        let kind = match rng.below(9) {
            0 => {
                let k = rng.range(0, 64) as usize;
                FaultKind::Raw(rng.bytes(k))
            }
            1 => FaultKind::MutByte { pkt, pos: rng.below(80) as usize, val: rng.below(256) as u8 },
            2 => FaultKind::Truncate { pkt, len: rng.below(90) as usize },
            3 => {
                let k = rng.range(1, 40) as usize;
                FaultKind::Extend { pkt, extra: rng.bytes(k) }
            }
            4 => FaultKind::Splice { a: pkt, b: rng.below(40) as usize, cut_a: rng.below(60) as usize, cut_b: rng.below(60) as usize },
            5 | 6 => FaultKind::Field { pkt, edits: gen_field_edits(rng) },
            _ => FaultKind::Fdt { xml: hostile_xml(rng, base_xml), instance: rng.range(2, 50) as u32, e: *rng.pick(&[16usize, 64, 512, 1400]) },
        };
        faults.push(Fault { at: rng.below(40) as usize, kind });
    }
    Scn { sender, recv, faults, fresh_all: false }
}

fn apply_edits(d: &wire::Decoded, raw: &[u8], edits: &[FieldEdit]) -> Vec<u8> {
    let mut b: Build = wire::to_build(d);
    let mut post: Vec<&FieldEdit> = Vec::new();
    for e in edits {
        match e {
            FieldEdit::Codepoint(c) => b.cp = *c,
            FieldEdit::Toi(t) => {
                b.toi = t.parse().unwrap_or(0);
                let (tl, ol) = wire::field_lens(b.tsi, b.toi);
                b.tsi_len = tl;
                b.toi_len = ol;
            }
            FieldEdit::Tsi(t) => {
                b.tsi = *t;
                let (tl, ol) = wire::field_lens(b.tsi, b.toi);
                b.tsi_len = tl;
                b.toi_len = ol;
            }
            FieldEdit::Sbn(x) => b.sbn = *x,
            FieldEdit::Esi(x) => b.esi = *x,
            FieldEdit::Sbl(x) => b.sbl = *x,
            FieldEdit::FtiTransferLength(x) => {
                if let Some(f) = b.fti.as_mut() {
                    f.transfer_length = *x
                }
            }
            FieldEdit::FtiE(x) => {
                if let Some(f) = b.fti.as_mut() {
                    f.e = *x
                }
            }
            FieldEdit::FtiB(x) => {
                if let Some(f) = b.fti.as_mut() {
                    f.b = Some(*x)
                }
            }
            FieldEdit::FtiMaxN(x) => {
                if let Some(f) = b.fti.as_mut() {
                    f.max_n = Some(*x)
                }
            }
            FieldEdit::FtiZ(x) => {
                if let Some(f) = b.fti.as_mut() {
                    f.z = Some(*x)
                }
            }
            FieldEdit::FtiN(x) => {
                if let Some(f) = b.fti.as_mut() {
                    f.n = Some(*x)
                }
            }
            FieldEdit::FtiAl(x) => {
                if let Some(f) = b.fti.as_mut() {
                    f.al = Some(*x)
                }
            }
            FieldEdit::FtiFec(x) => {
                if let Some(f) = b.fti.as_mut() {
                    f.fec = *x
                }
            }
            FieldEdit::FdtId(x) => b.fdt = Some((b.fdt.map(|f| f.0).unwrap_or(2), *x)),
            FieldEdit::FdtVersion(x) => b.fdt = Some((*x, b.fdt.map(|f| f.1).unwrap_or(1))),
            FieldEdit::Cenc(x) => b.cenc = Some(*x),
            FieldEdit::DropFti => b.fti = None,
            FieldEdit::DropFdtExt => b.fdt = None,
            FieldEdit::RawTimeExt(bytes) => {
                b.sct = None;
                let mut e = vec![wire::HET_TIME];
                e.extend_from_slice(bytes);
                while e.len() % 4 != 0 {
                    e.push(0);
                }
                b.extra_exts.push(e);
            }
            FieldEdit::AddExt(het, bytes) => {
                let mut e = vec![*het];
                e.extend_from_slice(bytes);
                while e.len() % 4 != 0 {
                    e.push(0);
                }
                b.extra_exts.push(e);
            }
            FieldEdit::CloseObject(x) => b.close_object = *x,
            FieldEdit::CloseSession(x) => b.close_session = *x,
            FieldEdit::PayloadLen(n) => b.payload.resize(*n, 0x5A),
            FieldEdit::HdrLen(_) | FieldEdit::Flags0(_) | FieldEdit::Flags1(_) => post.push(e),
        }
    }
    let _ = raw;
    let mut out = wire::encode(&b);
    for e in post {
        match e {
            FieldEdit::HdrLen(x) => out[2] = *x,
            FieldEdit::Flags0(x) => out[0] = *x,
            FieldEdit::Flags1(x) => out[1] = *x,
            _ => {}
        }
    }
    out
}

struct Pusher<'a> {
    rr: RecvRun,
    ep: flute::core::UDPEndpoint,
    ctx: &'a Ctx,
    t_us: u64,
    accepted_faulty: u64,
    rejected_faulty: u64,
    /// accepted faulty packets that are something else than an object packet of the valid session with an altered
    /// payload (same header, extensions and payload id)
    accepted_other: u64,
    /// the valid session's object packets with the payload blanked
    originals: Vec<wire::Decoded>,
    what: String,
}

impl Pusher<'_> {
    fn push(&mut self, bytes: &[u8], faulty: bool) {
        self.t_us += 100;
        alloc::reset_marks();
        let before = alloc::live();
        let ok = self.rr.push(&self.ep, bytes, self.t_us);
        // documented usage (lib.rs example): cleanup() follows every push
        self.rr.cleanup(self.t_us);
        if faulty {
            if ok {
                self.accepted_faulty += 1;
                let payload_only = match wire::decode(bytes) {
                    Ok(mut d) => {
                        d.payload.clear();
                        d.toi != 0 && self.originals.contains(&d)
                    }
                    Err(_) => false,
                };
                if !payload_only {
                    self.accepted_other += 1;
                }
            } else {
                self.rejected_faulty += 1;
            }
        }
        let largest = alloc::largest();
        if largest > ALLOC_LIMIT {
            violate(
                self.ctx,
                "C04/huge-allocation",
                "-",
                format!(
                    "{}: one push ({} bytes, head {:02x?}) made a single allocation of {} bytes (receiver configured with a 64 KiB object cache)",
                    self.what, bytes.len(), &bytes[..bytes.len().min(24)], largest
                ),
            );
        }
        let peak = alloc::peak().saturating_sub(before);
        if peak > 4 * ALLOC_LIMIT {
            violate(
                self.ctx,
                "C04/heap-growth",
                "-",
                format!("{}: one push grew the heap by {} bytes", self.what, peak),
            );
        }
    }
}

/// One substituted value in its own receiver: context, the mutated packet, then a few valid packets so that
/// the state the mutated header created is exercised. Only the crash / loop-budget / allocation oracles apply.
/// Values tried with a fresh receiver each: all 255 others in thorough; in quick the boundary values and
/// every single-bit flip (the shared-receiver pass still tries all 255)
fn fresh_values(orig: u8, all: bool) -> Vec<u8> {
    let mut v: Vec<u8> = if all {
        (0..=255u8).collect()
    } else {
        let mut v = vec![0u8, 1, 2, 3, 4, 5, 6, 7, 8, 15, 16, 17, 31, 32, 33, 63, 64, 65, 127, 128, 129, 191, 192, 193, 254, 255];
        for b in 0..8 {
            v.push(orig ^ (1 << b));
        }
        v.push(orig.wrapping_add(1));
        v.push(orig.wrapping_sub(1));
        v
    };
    v.sort();
    v.dedup();
    v.retain(|x| *x != orig);
    v
}

fn fresh_variant(scn: &Scn, ctx: &Ctx, context: &[&[u8]], mutated: &[u8], after: &[&[u8]], what: &str) {
    let builder = std::rc::Rc::new(NullBuilder::default());
    let mut recv = flute::receiver::MultiReceiver::new(builder, Some(scn.recv.config()), false);
    let ep = scn.sender.spec.endpoint.build();
    let mut t = t0_us();
    alloc::reset_marks();
    for b in context.iter().chain(std::iter::once(&mutated)).chain(after.iter()) {
        t += 100;
        flute::verif::clock::set(std::time::Duration::from_micros(t - t0_us()));
        flute::verif::reset_loop_budget(crate::rdrv::LOOP_BUDGET);
        let _ = recv.push(&ep, b, systime_us(t));
    }
    recv.cleanup(systime_us(t));
    drop(recv);
    if alloc::largest() > ALLOC_LIMIT {
        violate(
            ctx,
            "C04/huge-allocation",
            "-",
            format!("{}: a single allocation of {} bytes (receiver configured with a 64 KiB object cache)", what, alloc::largest()),
        );
    }
}

pub fn run(scn: &Scn, ctx: &Ctx, scratch: &Path) {
    let sess = match run_sender(&scn.sender, ctx, scratch) {
        Some(s) => s,
        None => return,
    };
    let n = sess.trace.pkts.len();
    if n == 0 || sess.objs.is_empty() {
        return;
    }
    let monitor = Monitor::new(ctx, scn.recv.md5_check, WriterFaults::default(), "r0");
    let rr = RecvRun::new(&scn.recv, ctx, monitor.clone(), false, "r0");
    let mut p = Pusher {
        rr,
        ep: scn.sender.spec.endpoint.build(),
        ctx,
        t_us: t0_us(),
        accepted_faulty: 0,
        rejected_faulty: 0,
        accepted_other: 0,
        originals: sess
            .trace
            .pkts
            .iter()
            .filter(|e| e.dec.toi != 0)
            .map(|e| {
                let mut d = e.dec.clone();
                d.payload.clear();
                d
            })
            .collect(),
        what: String::new(),
    };
    // a hard ceiling far above the soft limit keeps a runaway allocation from taking the machine down
    alloc::set_ceiling(8 << 30);
    let mut fired = 0u64;
    for at in 0..=n {
        for f in scn.faults.iter().filter(|f| f.at.min(n) == at) {
            p.what = format!("fault {:?}", short(&f.kind));
            match &f.kind {
                FaultKind::Raw(b) => {
                    p.push(b, true);
                    ctx.borrow_mut().count_fault("inject-raw");
                    fired += 1;
                }
                FaultKind::MutByte { pkt, pos, val } => {
                    if let Some(e) = sess.trace.pkts.get(*pkt % n) {
                        let mut b = e.bytes.clone();
                        let pos = *pos % b.len();
                        if b[pos] != *val {
                            b[pos] = *val;
                            p.push(&b, true);
                            ctx.borrow_mut().count_fault("mutate-byte");
                            fired += 1;
                        }
                    }
                }
                // (delivered IN PLACE of the packet, see below)
                FaultKind::MutPayload { .. } | FaultKind::BreakFdt { .. } => {}
                FaultKind::Truncate { pkt, len } => {
                    let e = &sess.trace.pkts[*pkt % n];
                    let l = (*len).min(e.bytes.len().saturating_sub(1));
                    p.push(&e.bytes[..l], true);
                    ctx.borrow_mut().count_fault("truncate");
                    fired += 1;
                }
                FaultKind::Extend { pkt, extra } => {
                    let e = &sess.trace.pkts[*pkt % n];
                    let mut b = e.bytes.clone();
                    b.extend_from_slice(extra);
                    p.push(&b, true);
                    ctx.borrow_mut().count_fault("extend");
                    fired += 1;
                }
                FaultKind::Splice { a, b, cut_a, cut_b } => {
                    let ea = &sess.trace.pkts[*a % n].bytes;
                    let eb = &sess.trace.pkts[*b % n].bytes;
                    let mut v = ea[..(*cut_a).min(ea.len())].to_vec();
                    v.extend_from_slice(&eb[(*cut_b).min(eb.len())..]);
                    p.push(&v, true);
                    ctx.borrow_mut().count_fault("splice");
                    fired += 1;
                }
                FaultKind::Field { pkt, edits } => {
                    let e = &sess.trace.pkts[*pkt % n];
                    let b = apply_edits(&e.dec, &e.bytes, edits);
                    if b != e.bytes {
                        p.push(&b, true);
                        ctx.borrow_mut().count_fault("mutate-field");
                        fired += 1;
                    }
                }
                FaultKind::Fdt { xml, instance, e } => {
                    // (half of the crafted instances carry a sender current time a little behind the receiver's clock)
                    let sct = if *instance % 2 == 0 { Some(wire::ntp_of_unix_micros(t0_us() - 1_500_000)) } else { None };
                    for b in wire::packetise_fdt(xml.as_bytes(), scn.sender.spec.tsi, *instance, *e, sct, None) {
                        p.push(&b, true);
                    }
                    ctx.borrow_mut().count_fault("mutate-fdt");
                    fired += 1;
                }
                FaultKind::ShortDatagrams { b0 } => {
                    if *b0 == 0 {
                        p.push(&[], true);
                        for a in 0..=255u8 {
                            p.push(&[a], true);
                            for b in 0..=255u8 {
                                p.push(&[a, b], true);
                            }
                        }
                    }
                    for a in 0..=255u8 {
                        for b in 0..=255u8 {
                            p.push(&[*b0, a, b], true);
                        }
                    }
                    ctx.borrow_mut().count_fault("inject-short-datagrams");
                    fired += 1;
                }
                FaultKind::HostileFdtFirst { attr } => {
                    // the first complete, readable FDT instance of the session
                    if let Some(tx) = sess.txs.iter().find(|t| t.complete_at.is_some() && t.xml.is_some() && t.cenc == 0) {
                        let xml = String::from_utf8_lossy(tx.xml.as_ref().unwrap()).to_string();
                        let needle = format!("{}=\"", attr);
                        let objs: Vec<&[u8]> = sess.trace.pkts.iter().filter(|p| p.dec.toi != 0).map(|p| p.bytes.as_slice()).collect();
                        let mut spots = Vec::new();
                        let mut from = 0;
                        while let Some(i) = xml[from..].find(&needle) {
                            let st = from + i + needle.len();
                            let en = st + xml[st..].find('"').unwrap_or(0);
                            spots.push((st, en));
                            from = en;
                        }
                        for (st, en) in spots {
                            let orig = xml[st..en].to_string();
                            for v in fdt_attr_values(attr, &orig) {
                                let mut x = xml.clone();
                                x.replace_range(st..en, &v);
                                // (the lifetime attribute: also with a sender-current-time extension whose clock is a little
                                // behind / far ahead of the receiver's)
                                let scts: Vec<Option<(u32, u32)>> = if attr == "Expires" {
                                    vec![None, Some(wire::ntp_of_unix_micros(t0_us() - 1_500_000)), Some(wire::ntp_of_unix_micros(t0_us() + 86_400_000_000))]
                                } else {
                                    vec![None]
                                };
                                for sct in scts {
                                    let fdt = wire::packetise_fdt(x.as_bytes(), scn.sender.spec.tsi, tx.instance_id, tx.e as usize, sct, None);
                                    let (last, head) = fdt.split_last().unwrap();
                                    let cx: Vec<&[u8]> = head.iter().map(|b| b.as_slice()).collect();
                                    fresh_variant(scn, ctx, &cx, last, &objs, &format!("fresh receiver: FDT with {}=\"{}\" (was \"{}\"){} first, then the object packets", attr, truncate(&v, 40), truncate(&orig, 40), if sct.is_some() { " and EXT_TIME" } else { "" }));
                                    fired += 1;
                                }
                            }
                        }
                        ctx.borrow_mut().count_fault("hostile-fdt-attribute-first");
                    }
                }
                FaultKind::AllValuesForeign { context, pkt, pos } => {
                    for c in context {
                        p.what = "foreign context packet".into();
                        p.push(c, true);
                    }
                    p.what = "foreign packet".into();
                    p.push(pkt, true);
                    if *pos < pkt.len() {
                        for v in 0..=255u8 {
                            if v == pkt[*pos] {
                                continue;
                            }
                            let mut b = pkt.clone();
                            b[*pos] = v;
                            p.what = format!("foreign RS GF(2^m) packet byte {} := {:#04x}", pos, v);
                            p.push(&b, true);
                        }
                        ctx.borrow_mut().count_fault("mutate-foreign-all-values");
                        fired += 1;
                        let cx: Vec<&[u8]> = context.iter().map(|c| c.as_slice()).collect();
                        let after: Vec<&[u8]> = vec![pkt.as_slice()];
                        for v in 0..=255u8 {
                            if v == pkt[*pos] {
                                continue;
                            }
                            let mut b = pkt.clone();
                            b[*pos] = v;
                            fresh_variant(scn, ctx, &cx, &b, &after, &format!("fresh receiver: foreign RS GF(2^m) packet byte {} := {:#04x}", pos, v));
                        }
                    }
                }
                FaultKind::AllValues { pkt, pos } => {
                    if let Some(e) = sess.trace.pkts.get(*pkt) {
                        if *pos < e.dec.payload_off.min(e.bytes.len()) {
                            let orig = e.bytes[*pos];
                            for v in 0..=255u8 {
                                if v == orig {
                                    continue;
                                }
                                let mut b = e.bytes.clone();
                                b[*pos] = v;
                                p.what = format!("packet {} byte {} := {:#04x}", pkt, pos, v);
                                p.push(&b, true);
                            }
                            ctx.borrow_mut().count_fault("mutate-header-all-values");
                            fired += 1;
                            // header fields of the first packet of an object / FDT instance define state
                            // (OTI, transfer length, cenc, instance id): later copies are ignored, so each
                            // value gets its own receiver there
                            let first_of_toi = !sess.trace.pkts[..*pkt].iter().any(|q| q.dec.toi == e.dec.toi && q.dec.fdt == e.dec.fdt);
                            if scn.fresh_all || first_of_toi {
                                let context: Vec<&[u8]> = sess.trace.pkts[..*pkt].iter().map(|q| q.bytes.as_slice()).collect();
                                let after: Vec<&[u8]> = sess.trace.pkts[*pkt..].iter().take(4).map(|q| q.bytes.as_slice()).collect();
                                for v in fresh_values(orig, scn.fresh_all) {
                                    let mut b = e.bytes.clone();
                                    b[*pos] = v;
                                    fresh_variant(scn, ctx, &context, &b, &after, &format!("fresh receiver: packet {} byte {} := {:#04x}", pkt, pos, v));
                                }
                                ctx.borrow_mut().count_fault("mutate-header-all-values-fresh-receiver");
                            }
                        }
                    }
                }
            }
        }
        if at < n {
            let e = &sess.trace.pkts[at];
            // a payload-only corruption replaces the packet it alters (damaged in transit): the first object packet with
            // a payload at or after the fault's index
            let hit = scn.faults.iter().find_map(|f| match &f.kind {
                FaultKind::MutPayload { pkt, back, xor } => {
                    let target = (0..n).map(|k| (*pkt + k) % n).find(|i| sess.trace.pkts[*i].dec.toi != 0 && !sess.trace.pkts[*i].dec.payload.is_empty());
                    if target == Some(at) {
                        Some((*back, *xor))
                    } else {
                        None
                    }
                }
                _ => None,
            });
            let broken_fdt = scn.faults.iter().any(|f| match &f.kind {
                FaultKind::BreakFdt { pkt } => (0..n).map(|k| (*pkt + k) % n).find(|i| sess.trace.pkts[*i].dec.toi == 0 && !sess.trace.pkts[*i].dec.payload.is_empty()) == Some(at),
                _ => false,
            });
            if broken_fdt {
                let mut b = e.bytes.clone();
                let start = b.len() - e.dec.payload.len();
                for x in b[start..].iter_mut().take(12) {
                    *x = b'<';
                }
                p.what = format!("FDT packet {} with a garbled payload", at);
                p.push(&b, true);
                ctx.borrow_mut().count_fault("garble-fdt-packet");
                fired += 1;
            } else if let Some((back, xor)) = hit {
                let mut b = e.bytes.clone();
                let pos = b.len() - 1 - (back % e.dec.payload.len());
                b[pos] ^= xor | 1;
                p.what = format!("packet {} with an altered payload byte", at);
                p.push(&b, true);
                ctx.borrow_mut().count_fault("mutate-payload-only");
                fired += 1;
            } else {
                p.what = format!("valid packet {}", at);
                let b = e.bytes.clone();
                p.push(&b, false);
            }
        }
    }
    if fired > 0 {
        ctx.borrow_mut().nontrivial = true;
    }
    if p.accepted_faulty > 0 && p.accepted_other == 0 && scn.recv.md5_check && scn.sender.objects.iter().all(|o| o.md5) {
        // every accepted faulty packet was an object packet of the session with an altered PAYLOAD only (same header,
        // extensions, payload id): the worst it can do is make its object fail its MD5 / inflate check. The object is
        // then rejected as a whole - and the complete retransmission of the valid session (twice: the carousel goes on)
        // on the same TSI still delivers it - right away, without waiting for any timeout to clean up
        ctx.borrow_mut().note("recovery:same-tsi-after-payload-corruption");
        for _ in 0..2 {
            for e in &sess.trace.pkts {
                p.what = "retransmitted valid session".into();
                p.push(&e.bytes.clone(), false);
            }
        }
        for o in &sess.objs {
            let (exact, _, _) = completes_exact(&monitor, o);
            if exact == 0 {
                violate(
                    ctx,
                    "C04/not-usable-after-faults",
                    "same-tsi-after-payload-corruption",
                    format!(
                        "{} packets of the session with an altered payload were accepted (nothing else), the MD5 check is on: toi={} was not delivered by two complete retransmissions of the valid session on the same TSI",
                        p.accepted_faulty, o.toi
                    ),
                );
            }
        }
    }
    // cleanup after the timeouts have elapsed must work too
    p.t_us += 30_000_000;
    alloc::reset_marks();
    p.rr.cleanup(p.t_us);
    // --- recovery
    let all_rejected = p.accepted_faulty == 0;
    if all_rejected {
        ctx.borrow_mut().note("recovery:same-tsi");
        // every faulty packet was rejected: the valid session pushed afterwards (a complete
        // retransmission on the same TSI, as the carousel would do) must be delivered
        for e in &sess.trace.pkts {
            p.what = "retransmitted valid session".into();
            p.push(&e.bytes.clone(), false);
        }
        for o in &sess.objs {
            let (exact, wrong, _) = completes_exact(&monitor, o);
            if wrong > 0 {
                violate(ctx, "C04/recovery-wrong-bytes", "same-tsi", format!("toi={} complete with wrong bytes", o.toi));
            }
            if exact == 0 {
                violate(
                    ctx,
                    "C04/not-usable-after-rejected-packets",
                    "same-tsi",
                    format!(
                        "all {} faulty packets were rejected with Err, yet toi={} of the valid session on the same TSI was not delivered",
                        p.rejected_faulty, o.toi
                    ),
                );
            }
        }
    } else {
        ctx.borrow_mut().note("recovery:fresh-tsi");
        // an accepted packet may legitimately change the session state: use a fresh TSI
        let mut fresh = scn.sender.clone();
        fresh.spec.tsi = scn.sender.spec.tsi + 1000;
        if let Some(s2) = run_sender(&fresh, ctx, scratch) {
            for e in &s2.trace.pkts {
                p.what = "recovery session".into();
                p.push(&e.bytes.clone(), false);
            }
            let st = monitor.state.borrow();
            for o in &s2.objs {
                let ok = st.writers.iter().any(|w| w.tsi == fresh.spec.tsi && w.toi == o.toi && w.terminal == Some(Terminal::Complete) && w.data == o.content);
                if !ok {
                    violate(
                        ctx,
                        "C04/not-usable-after-faults",
                        "fresh-tsi",
                        format!("after the faulty traffic a valid session on a fresh TSI did not deliver toi={}", o.toi),
                    );
                }
            }
        }
    }
    {
        // ... and so must a NEW valid session of the same TSI (a sender that carries on with other objects), whether
        // faulty packets were accepted or all of them were rejected:
        // TOIs and FDT instance ids that the earlier traffic never used, the ids LOWER than the corpus ones
        // (nothing in FLUTE orders instance ids). What was accepted before may have damaged objects of the old
        // session, it must not blind the receiver to the whole TSI.
        let mut again = scn.sender.clone();
        again.spec.toi_initial = Some("40000".into());
        again.spec.fdt_start_id = 600;
        for (i, o) in again.objects.iter_mut().enumerate() {
            o.location = format!("file:///again/obj{}.bin", i);
            o.seed = o.seed.wrapping_add(0xA6A1);
        }
        if let Some(s3) = run_sender(&again, ctx, scratch) {
            for e in &s3.trace.pkts {
                p.what = "new session on the same TSI".into();
                p.push(&e.bytes.clone(), false);
            }
            let st = monitor.state.borrow();
            let mut missing = Vec::new();
            for o in &s3.objs {
                let ok = st.writers.iter().any(|w| w.tsi == again.spec.tsi && w.toi == o.toi && w.terminal == Some(Terminal::Complete) && w.data == o.content);
                if !ok {
                    missing.push(o.toi);
                }
            }
            drop(st);
            if missing.is_empty() {
                ctx.borrow_mut().note("recovery:same-tsi-new-session");
            } else {
                violate(
                    ctx,
                    "C04/not-usable-after-faults",
                    "same-tsi-new-session",
                    format!(
                        "after the faulty traffic ({} faulty packets accepted, {} rejected) a NEW valid session on the same TSI (TOIs from 40000, FDT instance ids from 600: none of them used before) did not deliver toi(s) {:?}: the receiver is blind to this TSI",
                        p.accepted_faulty, p.rejected_faulty, missing
                    ),
                );
            }
        }
    }
    p.rr.drop_receiver();
    alloc::set_ceiling(usize::MAX);
}

fn short(k: &FaultKind) -> String {
    let s = format!("{:?}", k);
    truncate(&s, 160)
}

impl Prop for C04 {
    fn id(&self) -> &'static str {
        "C04"
    }
    fn info(&self) -> PropInfo {
        PropInfo {
            level: "exploration",
            rule: "part 1 (enumerated, both tiers): ALL datagrams of length <= 3 (16.8 M) pushed into receivers in the middle of valid sessions; EVERY single-byte substitution (255 values) at every position of the header region (LCT header, extensions, FEC payload id; first 72 bytes) of every packet of a 23-session corpus (5 FEC schemes x in-band/FDT-only signalling x cenc, FDT over No-Code/RS/RaptorQ/Raptor), each position in its own receiver in session context; the same for harness-encoded packets of the Reed-Solomon GF(2^m) scheme (parsed by flute, never emitted by its sender), with in-band FTI and with an FDT announcing it; part 2: seeded sequences of 1-50 faults interleaved with valid traffic: random bytes, byte mutation, truncation, extension, splices of two packets, field-aware edits (HDR_LEN, flags, codepoint, TSI/TOI, SBN/ESI/block length, every EXT_FTI field, EXT_FDT, EXT_CENC, raw EXT_TIME, unknown extensions, close flags, payload length) re-encoded by the harness encoder, and crafted FDT instances with rewritten attributes, deep nesting, entities, truncation, thousands of File entries. Oracle: no panic (overflow checks and debug assertions on), loop budget per call, no single allocation > 64 MiB and no heap growth > 256 MiB per push (counting allocator), worker abort/hang caught by process isolation; recovery: if every faulty packet was rejected the valid session on the SAME TSI must be delivered exactly, otherwise a valid session on a fresh TSI; always a NEW valid session on the same TSI; after payload-only corruptions (MD5 checked) two immediate retransmissions of the valid session on the same TSI. Non-trivial: at least one fault fired.",
            assumptions: vec!["a mutated packet that flute accepts (Ok) may legitimately change that session's state", "allocation limits: 64 MiB per allocation with a 64 KiB object cache configured"],
            real: vec!["MultiReceiver/Receiver and everything below incl. quick-xml deserialisation and all FEC decoders"],
            stub: vec!["network (adversarial)", "clocks", "monitoring writer", "global allocator (counting)"],
        }
    }
    fn runs(&self, tier: Tier) -> u64 {
        n_enum()
            + match tier {
                Tier::Quick => 6000,
                Tier::Thorough => 400_000,
            }
    }
    fn generate(&self, idx: u64, tier: Tier, rng: &mut Rng) -> Value {
        serde_json::to_value(gen(idx, rng, tier)).unwrap()
    }
    fn run(&self, scn: &Value, ctx: &Ctx, scratch: &Path) {
        match serde_json::from_value::<Scn>(scn.clone()) {
            Ok(s) => run(&s, ctx, scratch),
            Err(e) => ctx.borrow_mut().note(&format!("bad-scenario:{}", e)),
        }
    }
    fn exhaustive(&self, _tier: Tier) -> Option<String> {
        Some(format!(
            "all datagrams of <= 3 bytes; all 255 substitutions at each of the first {} header positions of up to {} packets of {} corpus sessions",
            HDR_POS_MAX, PKT_MAX, corpus().len()
        ))
    }
    fn shrink(&self, scn: &Value) -> Vec<Value> {
        let s: Scn = match serde_json::from_value(scn.clone()) {
            Ok(s) => s,
            Err(_) => return vec![],
        };
        let mut out = Vec::new();
        // drop faults (halves first, then single ones)
        let n = s.faults.len();
        if n > 1 {
            let mut a = s.clone();
            a.faults.truncate(n / 2);
            out.push(a);
            let mut b = s.clone();
            b.faults.drain(..n / 2);
            out.push(b);
            for i in 0..n.min(60) {
                let mut c = s.clone();
                c.faults.remove(i);
                out.push(c);
            }
        }
        for (i, f) in s.faults.iter().enumerate() {
            match &f.kind {
                FaultKind::Field { pkt, edits } if edits.len() > 1 => {
                    for j in 0..edits.len() {
                        let mut c = s.clone();
                        let mut e = edits.clone();
                        e.remove(j);
                        c.faults[i].kind = FaultKind::Field { pkt: *pkt, edits: e };
                        out.push(c);
                    }
                }
                FaultKind::AllValues { pkt, pos } => {
                    // narrow to single values is not possible without knowing which; keep
                    let _ = (pkt, pos);
                }
                _ => {}
            }
            if f.at > 0 {
                let mut c = s.clone();
                c.faults[i].at = 0;
                out.push(c);
            }
        }
        let mut c = s.clone();
        c.sender.objects[0].max_transfer_count = 1;
        out.push(c);
        out.into_iter().filter(|c| *c != s).map(|s| serde_json::to_value(s).unwrap()).collect()
    }
}
