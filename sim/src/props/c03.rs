//! C03 — no silent corruption: 'complete' always means the sender's exact bytes, whatever
//! sub-multiset of the session's packets arrives in whatever order (incl. stale packets of other
//! transfers / carousel cycles), and with payload corruption when MD5 is announced and checked.

use super::common::*;
use super::session::*;
use crate::channel::*;
use crate::ctx::{violate, Ctx};
use crate::engine::*;
use crate::monitor::*;
use crate::rng::Rng;
use crate::sdrv::*;
use crate::spec::*;
use serde::{Deserialize, Serialize};
use serde_json::Value;
use std::path::Path;

#[derive(Clone, Debug, PartialEq, Serialize, Deserialize)]
pub struct Scn {
    pub sender: SenderScn,
    pub recv: RecvSpec,
    pub chan: ChanSpec,
    /// enumerate permutations [lo, hi) instead of using chan.reorder
    pub perms: Option<(u64, u64)>,
    pub cleanup_every: u32,
}

pub struct C03;

const PERM_CHUNK: u64 = 720;

fn tiny_sessions() -> Vec<SenderScn> {
    let mut v = Vec::new();
    for scheme in Scheme::ALL {
        for variant in 0..3 {
            // variant 0: 1 block k=3(+1) one transfer; 1: k=2(+1), two transfers; 2: two blocks of 2, FDT-only OTI
            let (b, e): (u32, u16) = match (scheme, variant) {
                (Scheme::Raptor, _) => (4, 2),
                (_, 0) => (3, 2),
                _ => (2, 2),
            };
            let parity = if scheme == Scheme::NoCode { 0 } else { 1 };
            let (len, transfers, inband) = match variant {
                0 => (b as usize * e as usize - 1, 1, true),
                1 => (b as usize * e as usize, 2, true),
                _ => (2 * b as usize * e as usize, 1, false),
            };
            if scheme == Scheme::Raptor && variant == 1 {
                continue; // 2 x (4+1) + FDT > 7 packets
            }
            if scheme == Scheme::Raptor && variant == 2 {
                continue;
            }
            let mut spec = SenderSpec::basic(OtiSpec::new(Scheme::NoCode, 1400, 64, 0, true));
            spec.interleave = 2;
            spec.queues = vec![(0, 1)];
            let mut o = ObjectSpec::basic(len, 0xC03 + v.len() as u64, 0);
            o.oti = Some(OtiSpec::new(scheme, e, b, parity, inband));
            o.max_transfer_count = transfers;
            let mut poll = PollSpec::simple(1000);
            poll.idle_polls_after_done = 0;
            v.push(SenderScn {
                spec,
                objects: vec![o],
                ops: vec![
                    TimedOp { when: When::AtUs(0), op: Op::Add(0) },
                    TimedOp { when: When::AtUs(0), op: Op::Publish },
                ],
                poll,
                snapshots: false,
            });
        }
    }
    v
}

fn gen_session(rng: &mut Rng) -> SenderScn {
    let soti = gen_sender_oti(rng, None);
    let mut spec = SenderSpec::basic(soti);
    spec.interleave = rng.range(1, 4) as u8;
    spec.queues = vec![(0, rng.range(0, 3) as u32)];
    spec.full_fdt = rng.chance(0.6);
    spec.fdt_carousel = CarouselSpec::DelayMs(*rng.pick(&[20u64, 100, 1000]));
    let n = rng.range(1, 3) as usize;
    let mut objects = Vec::new();
    let mut ops = Vec::new();
    for i in 0..n {
        let mut o = gen_object(rng, i, &spec, 40);
        o.prio = 0;
        o.max_transfer_count = *rng.pick(&[1u32, 2, 3]);
        if rng.chance(0.3) {
            o.carousel = Some(if rng.chance(0.5) {
                CarouselSpec::DelayMs(rng.range(0, 50))
            } else {
                CarouselSpec::IntervalMs(rng.range(0, 50))
            });
        }
        if rng.chance(0.2) {
            o.cenc = *rng.pick(&[CencSpec::Zlib, CencSpec::Deflate, CencSpec::Gzip]);
            o.source = SourceSpec::Buffer;
        }
        objects.push(o);
        ops.push(TimedOp { when: When::AtUs(0), op: Op::Add(i) });
    }
    ops.push(TimedOp { when: When::AtUs(0), op: Op::Publish });
    for (i, o) in objects.iter().enumerate() {
        if o.carousel.is_some() {
            // carousel objects run for a few cycles, then are removed
            ops.push(TimedOp { when: When::AfterPkt(rng.range(30, 300)), op: Op::Remove(i) });
            ops.push(TimedOp { when: When::AtUs(3_000_000), op: Op::Remove(i) });
        }
    }
    let poll = PollSpec {
        start_us: 0,
        gap: GapSpec::RandomUs { seed: rng.next_u64(), min: 100, max: *rng.pick(&[1_000u64, 20_000, 100_000]) },
        burst: if rng.chance(0.5) { None } else { Some(rng.range(1, 8) as u32) },
        max_polls: 5_000,
        max_pkts: 2_500,
        idle_polls_after_done: *rng.pick(&[0u32, 2]),
    };
    SenderScn { spec, objects, ops, poll, snapshots: false }
}

pub fn gen(idx: u64, _tier: Tier, rng: &mut Rng) -> Scn {
    let tiny = tiny_sessions();
    let chunks_per = 5040 / PERM_CHUNK; // 7
    let n_exh = tiny.len() as u64 * chunks_per;
    let mut recv = RecvSpec::basic();
    recv.object_timeout_ms = Some(3_600_000);
    if idx < n_exh {
        let s = (idx / chunks_per) as usize;
        let c = idx % chunks_per;
        return Scn {
            sender: tiny[s].clone(),
            recv,
            chan: ChanSpec::clean(),
            perms: Some((c * PERM_CHUNK, (c + 1) * PERM_CHUNK)),
            cleanup_every: 0,
        };
    }
    let mut sender = gen_session(rng);
    recv.receive_once = rng.chance(0.6);
    recv.md5_check = rng.chance(0.85);
    if rng.chance(0.04) {
        // a content encoding that GROWS the object across a source-block boundary: incompressible content of n x B x E
        // bytes (minus a few), so that the transfer length needs one more block (or symbol) than the content length.
        // Every length the packets and the FDT announce is the TRANSFER length's; no integrity check is left when the
        // MD5 is not announced or not verified (deflate has no checksum of its own)
        let scheme = *rng.pick(&[Scheme::RaptorQ, Scheme::RaptorQ, Scheme::Raptor, Scheme::Rs28, Scheme::NoCode]);
        let (e, b) = (*rng.pick(&[16u16, 32, 64]), if scheme == Scheme::Raptor { rng.range(4, 8) } else { rng.range(2, 8) } as u32);
        let n = rng.range(1, 3) as usize;
        let o = &mut sender.objects[0];
        o.oti = Some(OtiSpec::new(scheme, e, b, if scheme == Scheme::NoCode { 0 } else { rng.range(1, 3) as u32 }, true));
        o.len = (n * b as usize * e as usize).saturating_sub(rng.range(0, 12) as usize).max(1);
        o.kind = ContentKind::Random;
        o.cenc = *rng.pick(&[CencSpec::Deflate, CencSpec::Deflate, CencSpec::Zlib, CencSpec::Gzip]);
        o.source = SourceSpec::Buffer;
        o.md5 = rng.chance(0.5);
        o.target = None;
        recv.md5_check = rng.chance(0.5);
    }
    recv.max_objects_error = *rng.pick(&[0usize, 0, 2, 10]);
    let mut chan = ChanSpec::clean();
    chan.reorder = match rng.below(5) {
        0 => Reorder::None,
        1 => Reorder::Swap(rng.log_uniform(0.02, 0.5)),
        2 => Reorder::Jitter { p: rng.log_uniform(0.02, 0.5), max: rng.range(1, 40) as u32 },
        _ => Reorder::Shuffle,
    };
    if rng.chance(0.6) {
        chan.p_drop = rng.log_uniform(0.01, 0.5);
    }
    if rng.chance(0.5) {
        chan.p_dup = rng.log_uniform(0.01, 0.3);
    }
    if rng.chance(0.4) {
        chan.p_dup_late = rng.log_uniform(0.01, 0.3);
    }
    // payload corruption only when every object announces an MD5 and the writer checks it
    if recv.md5_check && sender.objects.iter().all(|o| o.md5) && rng.chance(0.4) {
        chan.p_corrupt = rng.log_uniform(0.005, 0.2);
        if rng.chance(0.3) {
            chan.p_truncate = rng.log_uniform(0.005, 0.1);
        }
        if rng.chance(0.3) {
            chan.p_extend = rng.log_uniform(0.005, 0.1);
        }
    }
    Scn { sender, recv, chan, perms: None, cleanup_every: *rng.pick(&[0u32, 0, 5, 40]) }
}

fn check_writers(ctx: &Ctx, sess: &Session, monitor: &Monitor, what: &str, corrupted: bool) {
    let st = monitor.state.borrow();
    for w in st.writers.iter() {
        let obj = sess.objs.iter().find(|o| o.toi == w.toi);
        if w.terminal == Some(Terminal::Complete) {
            match obj {
                Some(o) => {
                    if w.data != o.content {
                        let first = w.data.iter().zip(o.content.iter()).position(|(a, b)| a != b);
                        violate(
                            ctx,
                            "C03/complete-wrong-bytes",
                            if corrupted { "payload-corruption" } else { "-" },
                            format!(
                                "{}: toi={} {:?} reported complete with {} bytes (object {} bytes), first difference at {:?}",
                                what, w.toi, o.scheme, w.data.len(), o.content.len(), first
                            ),
                        );
                    }
                }
                None => violate(
                    ctx,
                    "C03/complete-unknown-object",
                    "-",
                    format!("{}: writer for toi={} completed but the sender has no such object", what, w.toi),
                ),
            }
        }
        let terminals: Vec<WKind> = w
            .events
            .iter()
            .map(|e| e.kind)
            .filter(|k| matches!(k, WKind::Complete | WKind::Error | WKind::Interrupted))
            .collect();
        if terminals.contains(&WKind::Complete) && terminals.len() > 1 {
            violate(
                ctx,
                "C03/complete-and-failed",
                "-",
                format!("{}: writer {} toi={} received {:?}", what, w.id, w.toi, terminals),
            );
        }
    }
}

pub fn run(scn: &Scn, ctx: &Ctx, scratch: &Path) {
    let sess = match run_sender(&scn.sender, ctx, scratch) {
        Some(s) => s,
        None => return,
    };
    for e in &sess.trace.wire_errors {
        violate(ctx, "C03/wire-discrepancy", "-", e.clone());
    }
    let n = sess.trace.pkts.len();
    if n == 0 {
        return;
    }
    let ep = [scn.sender.spec.endpoint.build()];
    if let Some((lo, hi)) = scn.perms {
        if n > 7 {
            ctx.borrow_mut().note("skip:session-too-long-for-permutations");
            return;
        }
        let total = factorial(n);
        let mut i = lo;
        let mut done = 0u64;
        while i < hi && i < total {
            let mut chan = scn.chan.clone();
            chan.reorder = Reorder::Perm(i);
            let (dl, _) = apply(&chan, ctx, &sess.trace, "r0");
            let mut r = receive(&scn.recv, ctx, &ep, &dl, Default::default(), "r0", 0, 0);
            check_writers(ctx, &sess, &r.monitor, &format!("permutation {}/{}", i, total), false);
            r.run.drop_receiver();
            i += 1;
            done += 1;
        }
        if done > 0 {
            let mut c = ctx.borrow_mut();
            c.nontrivial = true;
            c.note_n("exhaustive-permutations", done);
        }
        return;
    }
    let (dl, st) = apply(&scn.chan, ctx, &sess.trace, "r0");
    let mut r = receive(&scn.recv, ctx, &ep, &dl, Default::default(), "r0", scn.cleanup_every, 0);
    let corrupted = st.corrupted > 0;
    if corrupted {
        ctx.borrow_mut().note("runs-with-payload-corruption");
    }
    check_writers(ctx, &sess, &r.monitor, "sampled", corrupted);
    r.run.drop_receiver();
    if (st.reordered || st.dropped > 0 || st.duplicated > 0 || corrupted)
        && dl.iter().any(|d| d.src.map(|i| sess.trace.pkts[i].dec.toi != 0).unwrap_or(false))
    {
        ctx.borrow_mut().nontrivial = true;
    }
    let completes = r
        .monitor
        .state
        .borrow()
        .writers
        .iter()
        .filter(|w| w.terminal == Some(Terminal::Complete))
        .count();
    ctx.borrow_mut().note_n("complete-writers-checked", completes as u64);
}

impl Prop for C03 {
    fn id(&self) -> &'static str {
        "C03"
    }
    fn info(&self) -> PropInfo {
        PropInfo {
            level: "exploration",
            rule: "part 1: ALL permutations of the packets of tiny sessions (<= 7 packets; 5 FEC schemes x {1 block, 2 transfers, 2 blocks FDT-only OTI}); part 2: seeded multi-transfer / carousel sessions (1-3 objects) under drop, adjacent and late duplication, swap / bounded-delay / full-shuffle reordering (stale packets of other transfers and cycles arise from the shuffles) and - only when every object announces an MD5 and the writer checks it - payload bit flips, truncation and extension. Oracle: complete => concatenated writes equal the sender's object; never complete and failed. Non-trivial: a fault fired and object packets were delivered; distinct = distinct abstract event signatures.",
            assumptions: vec![
                "TOIs are unique per scenario (reuse of a released TOI for a different object is outside the statement)",
                "without announced+checked MD5 the property promises nothing under payload corruption: such runs are not generated",
            ],
            real: vec!["Sender and everything below", "MultiReceiver/Receiver and everything below"],
            stub: vec!["network (dropping, duplicating, reordering, corrupting channel)", "clocks", "application", "monitoring object writer"],
        }
    }
    fn runs(&self, tier: Tier) -> u64 {
        let exh = tiny_sessions().len() as u64 * (5040 / PERM_CHUNK);
        exh + match tier {
            Tier::Quick => 24_000,
            Tier::Thorough => 250_000,
        }
    }
    fn generate(&self, idx: u64, tier: Tier, rng: &mut Rng) -> Value {
        serde_json::to_value(gen(idx, tier, rng)).unwrap()
    }
    fn run(&self, scn: &Value, ctx: &Ctx, scratch: &Path) {
        match serde_json::from_value::<Scn>(scn.clone()) {
            Ok(s) => run(&s, ctx, scratch),
            Err(e) => ctx.borrow_mut().note(&format!("bad-scenario:{}", e)),
        }
    }
    fn exhaustive(&self, _tier: Tier) -> Option<String> {
        Some(format!("all permutations of the packets of {} tiny sessions (<= 7 packets each)", tiny_sessions().len()))
    }
    fn shrink(&self, scn: &Value) -> Vec<Value> {
        let s: Scn = match serde_json::from_value(scn.clone()) {
            Ok(s) => s,
            Err(_) => return vec![],
        };
        let mut out = Vec::new();
        if let Some((lo, hi)) = s.perms {
            if hi - lo > 1 {
                let mid = lo + (hi - lo) / 2;
                let mut a = s.clone();
                a.perms = Some((lo, mid));
                out.push(a);
                let mut b = s.clone();
                b.perms = Some((mid, hi));
                out.push(b);
            }
            return out.into_iter().map(|s| serde_json::to_value(s).unwrap()).collect();
        }
        for c in shrink_sender_scn(&s.sender) {
            let mut n = s.clone();
            n.sender = c;
            out.push(n);
        }
        if s.cleanup_every != 0 {
            let mut n = s.clone();
            n.cleanup_every = 0;
            out.push(n);
        }
        out.into_iter().map(|s| serde_json::to_value(s).unwrap()).collect()
    }
}
