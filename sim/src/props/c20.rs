//! C20 — object sources are interchangeable: the packets depend on the bytes, not on how they are read.

use super::common::*;
use crate::ctx::{violate, Ctx};
use crate::engine::*;
use crate::rng::Rng;
use crate::sdrv::*;
use crate::spec::*;
use serde::{Deserialize, Serialize};
use serde_json::Value;
use std::path::Path;

#[derive(Clone, Debug, PartialEq, Serialize, Deserialize)]
pub struct Scn {
    /// reference run: every object supplied as an in-memory buffer
    pub sender: SenderScn,
    /// the other way of supplying the same bytes, per object
    pub variants: Vec<SourceSpec>,
    /// the other run builds its objects through the typed builders (CreateFromBuffer / Stream / File)
    #[serde(default)]
    pub via_builder: bool,
}

pub struct C20;

/// A single LARGE object (source blocks of hundreds of KiB, several blocks, interleaving): what a stream source
/// reads ahead must not change the packet order.
fn gen_large(rng: &mut Rng) -> Scn {
    let mut spec = SenderSpec::basic(OtiSpec::new(Scheme::NoCode, 1400, 64, 0, true));
    spec.interleave = rng.range(2, 4) as u8;
    spec.queues = vec![(0, 1)];
    let b = *rng.pick(&[200u32, 400]);
    let blocks = rng.range(2, 3) as usize;
    let len = blocks * b as usize * 1400 - rng.range(0, 3000) as usize;
    let mut o = ObjectSpec::basic(len, rng.next_u64(), 0);
    o.kind = ContentKind::Counter;
    o.md5 = rng.chance(0.5);
    o.oti = Some(OtiSpec::new(Scheme::NoCode, 1400, b, 0, rng.chance(0.5)));
    let ops = vec![TimedOp { when: When::AtUs(0), op: Op::Add(0) }, TimedOp { when: When::AtUs(0), op: Op::Publish }];
    let poll = PollSpec { start_us: 0, gap: GapSpec::FixedUs(1000), burst: None, max_polls: 100, max_pkts: 4000, idle_polls_after_done: 1 };
    let mut variant = match rng.below(3) {
        0 => SourceSpec::Stream(ReadSched::Full),
        1 => SourceSpec::Stream(ReadSched::BufLike(8192)),
        _ => SourceSpec::File,
    };
    if rng.chance(0.5) {
        // a large, poorly compressible object handed over pre-encoded (the application-side encoder is fed whole, in
        // 1 MiB reads): the encoded stream is what the buffer variant's encoding is
        o.cenc = *rng.pick(&[CencSpec::Gzip, CencSpec::Gzip, CencSpec::Zlib, CencSpec::Deflate]);
        o.kind = *rng.pick(&[ContentKind::Random, ContentKind::Random, ContentKind::Counter]);
        variant = SourceSpec::PreEncodedStream(if rng.chance(0.5) { ReadSched::Full } else { ReadSched::BufLike(8192) });
    }
    Scn { sender: SenderScn { spec, objects: vec![o], ops, poll, snapshots: false }, variants: vec![variant], via_builder: false }
}

pub fn gen(rng: &mut Rng, tier: Tier) -> Scn {
    if rng.chance(0.008) {
        return gen_large(rng);
    }
    let soti = gen_sender_oti(rng, None);
    let mut spec = gen_sender_spec(rng, soti);
    spec.fdt_carousel = CarouselSpec::DelayMs(1000);
    let n = rng.range(1, 3) as usize;
    let mut objects = Vec::new();
    let mut ops = Vec::new();
    let mut variants = Vec::new();
    for i in 0..n {
        let mut o = gen_object(rng, i, &spec, if tier == Tier::Quick { 150 } else { 600 });
        o.cenc = CencSpec::Null;
        o.source = SourceSpec::Buffer;
        o.max_transfer_count = *rng.pick(&[1u32, 2, 3]);
        if rng.chance(0.2) {
            o.carousel = Some(CarouselSpec::DelayMs(rng.range(0, 20)));
        }
        variants.push(match rng.below(10) {
            8 | 9 => {
                // a stream that is not at its start when flute gets it (all the more with no MD5 pass)
                if rng.chance(0.7) {
                    o.md5 = false;
                }
                SourceSpec::StreamAt(
                    match rng.below(3) {
                        0 => ReadSched::Full,
                        1 => ReadSched::Fixed(*rng.pick(&[3usize, 64, 1000])),
                        _ => ReadSched::Random { seed: rng.next_u64(), max: *rng.pick(&[10usize, 100, 5000]) },
                    },
                    *rng.pick(&[1u32, 100, 500, 999, 1000, 1000]),
                )
            }
            0 => SourceSpec::Stream(ReadSched::Full),
            1 => SourceSpec::Stream(ReadSched::One),
            2 => SourceSpec::Stream(ReadSched::Fixed(*rng.pick(&[2usize, 3, 5, 7, 64, 1000]))),
            3 | 4 => SourceSpec::Stream(ReadSched::Random { seed: rng.next_u64(), max: *rng.pick(&[2usize, 10, 100, 5000]) }),
            5 => {
                if rng.chance(0.4) {
                    // EINTR: reads of a few bytes, every 2nd..10th call is interrupted (many interruptions per block)
                    SourceSpec::Stream(ReadSched::Interrupted { chunk: *rng.pick(&[1usize, 7, 64, 4096]), every: rng.range(2, 10) as u32 })
                } else {
                    SourceSpec::Stream(ReadSched::BufLike(*rng.pick(&[16usize, 512, 8192])))
                }
            }
            6 => SourceSpec::File,
            _ => SourceSpec::FileInRam,
        });
        // a content-encoded object: the buffer is encoded by flute, the stream is handed over pre-encoded by the
        // application (compress_stream) with content length and MD5 of the content set on the description
        if rng.chance(0.12) {
            o.cenc = *rng.pick(&[CencSpec::Zlib, CencSpec::Deflate, CencSpec::Gzip]);
            o.kind = *rng.pick(&[ContentKind::Text, ContentKind::Random, ContentKind::Zeros]);
            let sched = match rng.below(4) {
                0 => ReadSched::Full,
                1 => ReadSched::Fixed(*rng.pick(&[3usize, 64, 1000])),
                2 => ReadSched::Interrupted { chunk: *rng.pick(&[7usize, 64]), every: rng.range(2, 10) as u32 },
                _ => ReadSched::Random { seed: rng.next_u64(), max: *rng.pick(&[10usize, 100, 5000]) },
            };
            *variants.last_mut().unwrap() = SourceSpec::PreEncodedStream(sched);
            if rng.chance(0.2) {
                // a file that is streamed (not cached in RAM) cannot be content-encoded by flute: it is REFUSED, never sent
                // raw under the label of the encoding
                *variants.last_mut().unwrap() = SourceSpec::File;
            }
        } else if rng.chance(0.06) {
            // a transient I/O error: one read of the stream fails once with a non-retryable kind, in the middle of short
            // reads. The transfer may be cut, the object may even be refused - but no packet ever carries other bytes
            // than the buffer run's packet with the same (SBN, ESI)
            if rng.chance(0.7) {
                o.md5 = false;
            }
            *variants.last_mut().unwrap() = SourceSpec::Stream(ReadSched::FailOnce { chunk: *rng.pick(&[1usize, 7, 64, 300, 4096]), nth: rng.range(1, 60) as u32, kind: rng.below(4) as u8 });
        }
        objects.push(o);
        ops.push(TimedOp { when: When::AtUs(0), op: Op::Add(i) });
    }
    ops.push(TimedOp { when: When::AtUs(0), op: Op::Publish });
    for (i, o) in objects.iter().enumerate() {
        if o.carousel.is_some() {
            ops.push(TimedOp { when: When::AfterPkt(rng.range(20, 400)), op: Op::Remove(i) });
            ops.push(TimedOp { when: When::AtUs(1_000_000), op: Op::Remove(i) });
        }
    }
    let poll = PollSpec {
        start_us: 0,
        gap: GapSpec::FixedUs(rng.range(100, 5000)),
        burst: if rng.chance(0.5) { None } else { Some(rng.range(1, 20) as u32) },
        max_polls: 20_000,
        max_pkts: 8_000,
        idle_polls_after_done: 1,
    };
    Scn { sender: SenderScn { spec, objects, ops, poll, snapshots: false }, variants, via_builder: rng.chance(0.3) }
}

pub fn run(scn: &Scn, ctx: &Ctx, scratch: &Path) {
    let a = match Driver::new(&scn.sender, ctx, scratch) {
        Ok(d) => d.run(&scn.sender),
        Err(_) => return,
    };
    let mut other = scn.sender.clone();
    for (i, v) in scn.variants.iter().enumerate() {
        if let Some(o) = other.objects.get_mut(i) {
            o.source = v.clone();
            o.via_builder = scn.via_builder;
        }
    }
    let b = match Driver::new(&other, ctx, scratch) {
        Ok(d) => d.run(&other),
        Err(_) => return,
    };
    if a.pkts.iter().any(|p| p.dec.toi != 0) {
        ctx.borrow_mut().nontrivial = true;
    }
    let short_reads = scn.variants.iter().any(|v| matches!(v, SourceSpec::Stream(s) | SourceSpec::StreamAt(s, _) if *s != ReadSched::Full));
    if scn.variants.iter().any(|v| matches!(v, SourceSpec::Stream(ReadSched::Interrupted { .. }))) {
        ctx.borrow_mut().count_fault("read-interrupted-eintr");
    }
    if scn.variants.iter().any(|v| matches!(v, SourceSpec::StreamAt(..))) {
        ctx.borrow_mut().count_fault("stream-not-at-start");
    }
    if short_reads {
        ctx.borrow_mut().count_fault("short-read");
    }
    if scn.variants.iter().any(|v| matches!(v, SourceSpec::Stream(ReadSched::FailOnce { .. }))) {
        // I/O fault: equality is relaxed deliberately and narrowly - anything may be missing, nothing may be wrong
        ctx.borrow_mut().count_fault("read-fails-once");
        let mut want: std::collections::BTreeMap<(usize, u32, u32), &crate::wire::Decoded> = Default::default();
        for p in a.pkts.iter().filter(|p| p.dec.toi != 0) {
            if let Some(obj) = a.obj_toi.iter().position(|t| *t == Some(p.dec.toi)) {
                want.entry((obj, p.dec.sbn, p.dec.esi)).or_insert(&p.dec);
            }
        }
        for q in b.pkts.iter().filter(|p| p.dec.toi != 0) {
            let obj = match b.obj_toi.iter().position(|t| *t == Some(q.dec.toi)) {
                Some(o) => o,
                None => continue,
            };
            match want.get(&(obj, q.dec.sbn, q.dec.esi)) {
                Some(w) if w.payload == q.dec.payload => {}
                Some(w) => {
                    violate(
                        ctx,
                        "C20/wrong-bytes-after-read-error",
                        "-",
                        format!(
                            "object {} symbol ({}, {}): after a read of the stream failed once ({:?}) the packet carries {} bytes that differ from the buffer run's packet with the same ids ({} bytes)",
                            obj, q.dec.sbn, q.dec.esi, scn.variants[obj.min(scn.variants.len() - 1)], q.dec.payload.len(), w.payload.len()
                        ),
                    );
                    return;
                }
                // (the buffer run may not have reached this symbol: operations tied to packet counts fall elsewhere)
                None => ctx.borrow_mut().note("read-error:symbol-not-in-buffer-run"),
            }
        }
        return;
    }
    // a streamed file with a content encoding: refused when it is added (the buffer variant is accepted, the runs differ)
    let refused_expected: Vec<usize> = (0..scn.variants.len()).filter(|i| scn.variants[*i] == SourceSpec::File && scn.sender.objects[*i].cenc != CencSpec::Null).collect();
    if !refused_expected.is_empty() {
        for i in refused_expected {
            if b.obj_toi.get(i).copied().flatten().is_some() {
                violate(ctx, "C20/streamed-file-with-cenc-not-refused", "-", format!("object {}: a file that is streamed (cache_in_ram = false) was accepted with content encoding {:?}: flute cannot encode it, it would be sent raw under that label", i, scn.sender.objects[i].cenc));
            }
        }
        return;
    }
    // the two runs must agree operation by operation and packet by packet
    for (x, y) in a.ops.iter().zip(b.ops.iter()) {
        if x.result != y.result {
            violate(
                ctx,
                "C20/operation-result-differs",
                "-",
                format!("{:?}: buffer source gives {:?}, {:?} gives {:?}", x.op, x.result, scn.variants, y.result),
            );
            return;
        }
    }
    let n = a.pkts.len().min(b.pkts.len());
    for i in 0..n {
        if a.pkts[i].bytes != b.pkts[i].bytes {
            let (p, q) = (&a.pkts[i].dec, &b.pkts[i].dec);
            let class = if short_reads { "short-reads" } else { "full-reads" };
            violate(
                ctx,
                "C20/packets-differ",
                class,
                format!(
                    "packet {} differs: buffer source toi={} sbn={} esi={} len={} B={} / other source ({:?}) toi={} sbn={} esi={} len={} B={}",
                    i, p.toi, p.sbn, p.esi, p.payload.len(), p.close_object, scn.variants, q.toi, q.sbn, q.esi, q.payload.len(), q.close_object
                ),
            );
            return;
        }
    }
    if a.pkts.len() != b.pkts.len() {
        violate(
            ctx,
            "C20/packet-count-differs",
            if short_reads { "short-reads" } else { "full-reads" },
            format!("buffer source: {} packets, other source ({:?}): {} packets", a.pkts.len(), scn.variants, b.pkts.len()),
        );
    }
}

impl Prop for C20 {
    fn id(&self) -> &'static str {
        "C20"
    }
    fn info(&self) -> PropInfo {
        PropInfo {
            level: "exploration",
            rule: "differential simulation: the same scenario (1-3 objects, all FEC schemes, E, B, boundary lengths, 1-3 transfers, carousel, queues, multiplex, interleave, poll schedule) is run twice at the same simulated instants, once with in-memory buffers and once with the bytes supplied through a Read+Seek stream with a seeded read-size schedule (full, 1 byte, fixed small chunks, random sizes, BufReader-like) or a real temp file (streamed or cached in RAM); the two packet sequences must be identical byte for byte (timestamps included, both clocks are simulated). 'Faults' = schedules with short reads, EINTR-interrupted reads, streams handed over at a non-zero position, one read failing once with a non-retryable error kind. Non-trivial: object packets emitted.",
            assumptions: vec!["a content-encoded object supplied as a stream is handed over pre-encoded by the application (compress_stream), as flute requires; compress_stream and compress_buffer produce the same bytes", "after an injected read error (fail-once schedule) equality is relaxed to: no emitted symbol differs from the buffer run's symbol with the same ids"],
            real: vec!["Sender, BlockEncoder::read_block_stream / read_block_buffer, ObjectDesc::create_from_{buffer,stream,file}"],
            stub: vec!["object source (in-memory Read+Seek with scheduled short reads)", "clock", "poll schedule"],
        }
    }
    fn runs(&self, tier: Tier) -> u64 {
        match tier {
            Tier::Quick => 20_000,
            Tier::Thorough => 150_000,
        }
    }
    fn generate(&self, _idx: u64, tier: Tier, rng: &mut Rng) -> Value {
        serde_json::to_value(gen(rng, tier)).unwrap()
    }
    fn run(&self, scn: &Value, ctx: &Ctx, scratch: &Path) {
        match serde_json::from_value::<Scn>(scn.clone()) {
            Ok(s) => run(&s, ctx, scratch),
            Err(e) => ctx.borrow_mut().note(&format!("bad-scenario:{}", e)),
        }
    }
    fn shrink(&self, scn: &Value) -> Vec<Value> {
        let s: Scn = match serde_json::from_value(scn.clone()) {
            Ok(s) => s,
            Err(_) => return vec![],
        };
        let mut out = Vec::new();
        if s.sender.objects.len() > 1 {
            for i in 0..s.sender.objects.len() {
                let mut n = s.clone();
                n.variants.remove(i);
                let sub = shrink_sender_scn(&s.sender);
                // the first candidates of shrink_sender_scn remove object i
                if let Some(c) = sub.get(i) {
                    n.sender = c.clone();
                    out.push(n);
                }
            }
        } else {
            for c in shrink_sender_scn(&s.sender) {
                if c.objects.len() == s.sender.objects.len() {
                    let mut n = s.clone();
                    n.sender = c;
                    out.push(n);
                }
            }
        }
        out.into_iter().map(|s| serde_json::to_value(s).unwrap()).collect()
    }
}
