//! C12 — transfer lifecycle: exact transfer counts, removal semantics, reads terminate.

use super::c08::gen_history;
use super::common::*;
use super::sendview::*;
use crate::ctx::{violate, Ctx};
use crate::engine::*;
use crate::fdtview;
use crate::rng::Rng;
use crate::sdrv::*;
use crate::spec::*;
use crate::wire;
use serde::{Deserialize, Serialize};
use serde_json::Value;
use std::collections::BTreeSet;
use std::path::Path;

#[derive(Clone, Debug, PartialEq, Serialize, Deserialize)]
pub struct Scn {
    pub sender: SenderScn,
}

pub struct C12;

/// Small transfers with removal after EVERY packet index (enumerated by run index).
fn enumerated(idx: u64) -> Option<SenderScn> {
    // grid: scheme(3) x transfers(1..3) x carousel(3) x immediate(3) x removal index (0..=44)
    let per = 45u64;
    let combos = 3 * 3 * 3 * 3;
    if idx >= combos * per {
        return None;
    }
    let k = idx % per;
    let c = idx / per;
    let scheme = [Scheme::NoCode, Scheme::Rs28, Scheme::RaptorQ][(c % 3) as usize];
    let transfers = 1 + ((c / 3) % 3) as u32;
    let carousel = [None, Some(CarouselSpec::DelayMs(5)), Some(CarouselSpec::IntervalMs(5))][((c / 9) % 3) as usize];
    let immediate = [None, Some(false), Some(true)][((c / 27) % 3) as usize];
    let mut spec = SenderSpec::basic(OtiSpec::new(Scheme::NoCode, 1400, 64, 0, true));
    spec.interleave = 2;
    spec.queues = vec![(0, 1)];
    let mut o = ObjectSpec::basic(2 * 3 * 4 - 3, 0xC12 + c, 0);
    o.oti = Some(OtiSpec::new(scheme, 4, 3, if scheme == Scheme::NoCode { 0 } else { 1 }, true));
    o.max_transfer_count = transfers;
    o.carousel = carousel;
    o.immediate_stop = immediate;
    let mut ops = vec![
        TimedOp { when: When::AtUs(0), op: Op::Add(0) },
        TimedOp { when: When::AtUs(0), op: Op::Publish },
        TimedOp { when: When::AfterPkt(k), op: Op::Remove(0) },
    ];
    if carousel.is_some() {
        ops.push(TimedOp { when: When::AtUs(400_000), op: Op::Remove(0) });
    }
    let mut poll = PollSpec::simple(2000);
    poll.max_polls = 400;
    poll.idle_polls_after_done = 2;
    Some(SenderScn { spec, objects: vec![o], ops, poll, snapshots: true })
}

const N_ENUM: u64 = 81 * 45;

pub fn gen(idx: u64, rng: &mut Rng, tier: Tier) -> Scn {
    if let Some(s) = enumerated(idx) {
        return Scn { sender: s };
    }
    if rng.chance(0.08) {
        // being-transferred mode with a Raptor FDT of 1400-byte symbols: the FDT listing ONE object fits one
        // symbol, the one listing two or three needs 2-3 symbols, which Raptor cannot encode: the publication
        // made when a second object starts fails and that start is postponed until the first one is done
        let mut spec = SenderSpec::basic(OtiSpec::new(Scheme::Raptor, 1400, 64, 1, true));
        spec.full_fdt = false;
        spec.queues = vec![(0, rng.range(2, 3) as u32)];
        let n = rng.range(2, 3) as usize;
        let mut objects = Vec::new();
        let mut ops = Vec::new();
        for i in 0..n {
            let mut o = ObjectSpec::basic(rng.range(20, 200) as usize, rng.next_u64(), i);
            o.oti = Some(OtiSpec::new(Scheme::NoCode, 16, 4, 0, true));
            o.max_transfer_count = rng.range(1, 2) as u32;
            if rng.chance(0.3) {
                o.carousel = Some(CarouselSpec::DelayMs(rng.range(0, 20)));
            }
            objects.push(o);
            ops.push(TimedOp { when: if rng.chance(0.7) { When::AtUs(0) } else { When::AfterPkt(rng.range(1, 10)) }, op: Op::Add(i) });
        }
        for (i, o) in objects.iter().enumerate() {
            if o.carousel.is_some() {
                ops.push(TimedOp { when: When::AtUs(rng.range(100_000, 300_000)), op: Op::Remove(i) });
            }
        }
        let mut poll = PollSpec::simple(2000);
        poll.burst = if rng.chance(0.5) { None } else { Some(rng.range(1, 5) as u32) };
        poll.max_polls = 600;
        poll.idle_polls_after_done = 2;
        return Scn { sender: SenderScn { spec, objects, ops, poll, snapshots: true } };
    }
    let mut s = gen_history(rng, if tier == Tier::Quick { 60 } else { 300 }, true);
    s.snapshots = true;
    for o in s.objects.iter_mut() {
        // (no pacing here: the driver's end-of-run detection and the liveness rules assume un-paced objects; C14 has them)
        o.target = None;
        o.max_transfer_count = rng.range(1, 4) as u32;
        // a disk error when a LATER transfer starts (the source is rewound then): that transfer is aborted, the life
        // cycle goes on (the object is handed back, counted, retransmitted / dropped as configured)
        if (o.carousel.is_some() || o.max_transfer_count > 1) && o.cenc == CencSpec::Null && rng.chance(0.12) {
            o.source = SourceSpec::StreamFailingSeek(ReadSched::Full, rng.range(6, 9) as u32);
        }
    }
    // objects removed while still waiting in their queue, triggers
    if rng.chance(0.3) {
        let i = rng.below(s.objects.len() as u64) as usize;
        s.ops.push(TimedOp { when: When::AfterPkt(rng.range(0, 3)), op: Op::Remove(i) });
    }
    if rng.chance(0.3) {
        let i = rng.below(s.objects.len() as u64) as usize;
        s.ops.push(TimedOp {
            when: When::AfterPkt(rng.range(1, 100)),
            op: Op::Trigger { obj: i, at_us: if rng.chance(0.5) { None } else { Some(rng.range(0, 1_000_000)) } },
        });
    }
    // objects added while others are in flight, published some packets later (transfers end and objects are queued again
    // between the add and the publication): they are due like any other
    if rng.chance(0.25) {
        let n0 = s.objects.len();
        for j in 0..rng.range(1, 2) as usize {
            let i = n0 + j;
            let mut o = gen_object(rng, i, &s.spec, 30);
            o.carousel = None;
            o.target = None;
            o.start_ms = None;
            o.max_transfer_count = rng.range(1, 2) as u32;
            s.objects.push(o);
            let k = rng.range(1, 60);
            s.ops.push(TimedOp { when: When::AfterPkt(k), op: Op::Add(i) });
            s.ops.push(TimedOp { when: When::AfterPkt(k + *rng.pick(&[0u64, 1, 3, 9, 20])), op: Op::Publish });
        }
    }
    s.ops.retain(|t| t.op != Op::CloseSession);
    Scn { sender: s }
}

fn pkts_per_transfer(o: &ObjectSpec, oti: &OtiSpec, tl: u64) -> u64 {
    let p = wire::partition(oti.b as u64, tl, oti.e as u64);
    let t: u64 = (0..p.3).map(|s| wire::block_k(p, s)).sum();
    let _ = o;
    t + p.3 * oti.parity as u64 + 1
}

pub fn oracle(scn: &SenderScn, ctx: &Ctx, trace: &SenderTrace) {
    let tr = transfers(scn, trace);
    for e in &tr.event_errors {
        violate(ctx, "C12/transfer-events", "-", e.clone());
    }
    let txs = fdtview::fdt_transmissions(&trace.pkts);
    let max_fdt_pkts = txs.iter().map(|t| t.pkts.len()).max().unwrap_or(1) as u64;
    let mut per_poll_bound: u64 = 10;
    let n_publish = trace.ops.iter().filter(|r| r.op == Op::Publish).count() as u64;
    for (i, o) in scn.objects.iter().enumerate() {
        let toi = match trace.obj_toi[i] {
            Some(t) => t,
            None => continue,
        };
        let oti = o.eff_oti(&scn.spec.oti);
        let tl = txs
            .iter()
            .filter_map(|x| x.doc.as_ref())
            .flat_map(|d| d.files.iter())
            .find(|f| f.toi == toi)
            .and_then(|f| f.transfer_length)
            .unwrap_or(o.len as u64);
        per_poll_bound += 2 * o.max_transfer_count as u64 * pkts_per_transfer(o, oti, tl);
        per_poll_bound += 2 * (o.max_transfer_count as u64 + 2) * max_fdt_pkts;
        let mine: Vec<&Transfer> = tr.list.iter().filter(|t| t.obj == i).collect();
        let removed = removal_seq(trace, i);
        let triggered = trace.ops.iter().any(|r| matches!(r.op, Op::Trigger { obj, .. } if obj == i));
        let completed_before = |seq: u64| mine.iter().filter(|t| t.stop_seq.map(|s| s < seq).unwrap_or(false)).count();
        // --- transfer counter vs wire, is_added, FDT listing at every quiescent point
        for s in &trace.snaps {
            let snap = match s.objs.iter().find(|x| x.obj == i) {
                Some(x) => x,
                None => continue,
            };
            let on_wire = completed_before(s.seq) as u64;
            if let Some(n) = snap.nb_transfers {
                if n != on_wire {
                    violate(
                        ctx,
                        "C12/transfer-counter",
                        "-",
                        format!("toi={}: nb_transfers()={} but {} transfers completed on the wire (event {})", toi, n, on_wire, s.seq),
                    );
                }
            }
            if snap.is_added != snap.nb_transfers.is_some() || snap.is_added != s.in_fdt.contains(&toi) {
                violate(
                    ctx,
                    "C12/inconsistent-queries",
                    "-",
                    format!("toi={}: is_added={} nb_transfers={:?} listed={}", toi, snap.is_added, snap.nb_transfers, s.in_fdt.contains(&toi)),
                );
            }
            if let Some(r) = removed {
                if s.seq > r && snap.is_added {
                    violate(ctx, "C12/removed-still-added", "-", format!("toi={} still is_added after remove_object", toi));
                }
            }
            if o.carousel.is_some() && removed.map(|r| s.seq < r).unwrap_or(true) && !snap.is_added {
                violate(ctx, "C12/carousel-object-vanished", "-", format!("carousel object toi={} disappeared without being removed (event {})", toi, s.seq));
            }
            if o.carousel.is_none() && removed.map(|r| s.seq < r).unwrap_or(true) {
                let finished = on_wire >= o.max_transfer_count as u64;
                if finished && snap.is_added {
                    violate(
                        ctx,
                        "C12/finished-object-still-added",
                        "-",
                        format!("toi={}: {} of {} transfers done but the object is still in the sender (event {})", toi, on_wire, o.max_transfer_count, s.seq),
                    );
                }
                if !finished && !snap.is_added {
                    violate(
                        ctx,
                        "C12/object-vanished-early",
                        "-",
                        format!("toi={}: only {} of {} transfers done but the object is gone (event {})", toi, on_wire, o.max_transfer_count, s.seq),
                    );
                }
            }
        }
        // --- exact number of transfers for an object that runs to its end
        if o.carousel.is_none() && removed.is_none() && trace.finished {
            let done = mine.iter().filter(|t| t.stop_seq.is_some()).count();
            if done != o.max_transfer_count as usize || mine.len() != done {
                violate(
                    ctx,
                    "C12/transfer-count",
                    if triggered { "triggered" } else { "-" },
                    format!("toi={}: {} complete transfers on the wire ({} started), configured {}", toi, done, mine.len(), o.max_transfer_count),
                );
            }
        }
        // --- liveness: while the object still has transfers to make (carousel: always) and is due, a read that
        // returns 'nothing to send' is wrong (an object stuck in its queue never violates the counting rules)
        // (when the sender-wide FEC parameters can make a publication fail - the start of a transfer is then
        // legitimately postponed - the rule needs evidence that an FDT listing one such object alone can be
        // published: an instance of this run that lists a single object)
        let publication_can_fail = (scn.spec.oti.scheme == Scheme::Raptor && scn.spec.oti.e > 64) || (matches!(scn.spec.oti.scheme, Scheme::Rs28 | Scheme::Rs28Us) && scn.spec.oti.parity == 0);
        let single_ok = txs.iter().any(|x| x.complete_at.is_some() && x.doc.as_ref().map(|d| d.files.len() == 1).unwrap_or(false));
        // (a trigger with a time may postpone the object: not modelled; a trigger WITHOUT a time only clears the carousel
        // wait - the object is due at once, on the caller's clock)
        let triggered_at_time = trace.ops.iter().any(|r| matches!(r.op, Op::Trigger { obj, at_us: Some(_) } if obj == i));
        if !triggered_at_time && o.target.is_none() && (!publication_can_fail || (single_ok && !scn.spec.full_fdt)) {
            let published_seq = if scn.spec.full_fdt {
                add_seq(trace, i).and_then(|a| trace.ops.iter().find(|r| r.seq > a && r.result == OpResult::Published(true)).map(|r| r.seq))
            } else {
                add_seq(trace, i)
            };
            if let Some(pub_seq) = published_seq {
                let done = mine.iter().filter(|t| t.stop_seq.is_some()).count();
                let more = o.carousel.is_some() || (done as u32) < o.max_transfer_count;
                let open = mine.iter().any(|t| t.stop_seq.is_none());
                if more && !open {
                    // (seq, us) from which the next transfer is due
                    let (from_seq, due_us) = match mine.last() {
                        None => (pub_seq, o.start_ms.map(|m| m * 1000).unwrap_or(0)),
                        Some(last) => {
                            let stop = last.stop_us.unwrap_or(0);
                            let in_burst = (done as u32) % o.max_transfer_count.max(1) != 0;
                            let due = match (&o.carousel, in_burst) {
                                (Some(CarouselSpec::DelayMs(d)), false) => stop + d * 1000,
                                (Some(CarouselSpec::IntervalMs(d)), false) => stop.max(last.start_us + d * 1000),
                                _ => stop,
                            };
                            (last.stop_seq.unwrap_or(0), due)
                        }
                    };
                    let gone = removed.unwrap_or(u64::MAX);
                    // an immediate trigger received while the object waits: due from then on as soon as its start time allows
                    let trig_seq = trace
                        .ops
                        .iter()
                        .filter(|r| matches!(r.op, Op::Trigger { obj, at_us: None } if obj == i) && r.result == OpResult::Triggered(true) && r.seq > from_seq)
                        .map(|r| r.seq)
                        .min();
                    let base_due_us = o.start_ms.map(|m| m * 1000).unwrap_or(0);
                    for (pi, p) in trace.polls.iter().enumerate() {
                        let end_seq = trace.polls.get(pi + 1).map(|n| n.seq_begin).unwrap_or(u64::MAX);
                        let due_by_trigger = trig_seq.map(|ts| p.seq_begin > ts && p.t_us > base_due_us + 1000).unwrap_or(false);
                        // (I/O fault: a transfer start that hits the failing rewind of a stream source gives up for that
                        // read - the queue goes on at the next one. With such a source in the run one idle read is not
                        // enough, the following read must be idle as well)
                        let seek_fault = scn.objects.iter().any(|x| matches!(x.source, SourceSpec::StreamFailingSeek(..)));
                        let next_idle = trace.polls.get(pi + 1).map(|n| n.drained && n.n_pkts == 0 && trace.polls.get(pi + 2).map(|m| m.seq_begin).unwrap_or(u64::MAX) < gone).unwrap_or(false);
                        if seek_fault && !next_idle {
                            continue;
                        }
                        // a read that returns nothing at all: the sender is idle (no other object holds it up)
                        if p.drained && p.n_pkts == 0 && p.seq_begin > from_seq && (p.t_us > due_us + 1000 || due_by_trigger) && end_seq < gone {
                            violate(
                                ctx,
                                "C12/due-object-not-transferred",
                                if o.carousel.is_some() { "carousel" } else { "-" },
                                format!(
                                    "toi={}: {} transfer(s) done of {}{}, the next one is due since +{} us{}, yet the read at +{} us returned 'nothing to send' and no transfer started",
                                    toi,
                                    done,
                                    o.max_transfer_count,
                                    if o.carousel.is_some() { " per carousel cycle" } else { "" },
                                    if p.t_us > due_us + 1000 { due_us } else { base_due_us }.saturating_sub(t0_us()),
                                    if p.t_us > due_us + 1000 { "" } else { " (trigger_transfer_at without a time)" },
                                    p.t_us.saturating_sub(t0_us())
                                ),
                            );
                            break;
                        }
                    }
                }
            }
        }
        // --- a started transfer makes progress: an open transfer of an un-paced object while a read returns nothing at
        // all means the object is stuck 'in transfer' (e.g. its encoder could not be opened and it was never handed back)
        if o.target.is_none() {
            for t in mine.iter() {
                let stop = t.stop_seq.unwrap_or(u64::MAX);
                if let Some((pi, p)) = trace.polls.iter().enumerate().find(|(pi, p)| {
                    let end_seq = trace.polls.get(pi + 1).map(|n| n.seq_begin).unwrap_or(u64::MAX);
                    p.drained && p.n_pkts == 0 && p.seq_begin > t.start_seq && end_seq < stop && p.t_us > t.start_us + 1000
                }) {
                    violate(
                        ctx,
                        "C12/transfer-open-but-sender-idle",
                        "-",
                        format!("toi={} transfer {} started at event {} and is not finished, yet poll {} at +{} us returned 'nothing to send'", toi, t.n, t.start_seq, pi, p.t_us.saturating_sub(t0_us())),
                    );
                    break;
                }
            }
        }
        // --- removal semantics
        if let Some(r) = removed {
            let stoppable = o.immediate_stop == Some(true) || completed_before(r) > 0;
            let after: Vec<&Emitted> = trace.pkts.iter().filter(|p| p.dec.toi == toi && p.seq > r).collect();
            if let Some(t) = mine.iter().find(|t| t.start_seq > r) {
                violate(ctx, "C12/transfer-started-after-removal", "-", format!("toi={}: transfer {} starts after remove_object", toi, t.n));
            }
            if stoppable {
                if after.len() > 1 {
                    violate(
                        ctx,
                        "C12/not-stopped-after-removal",
                        "-",
                        format!("toi={}: {} packets after remove_object although the transfer may be stopped", toi, after.len()),
                    );
                }
                if let Some(p) = after.first() {
                    if !p.dec.close_object {
                        violate(ctx, "C12/stop-packet-without-close-flag", "-", format!("toi={}: the packet after remove_object (pkt {}) lacks the close-object flag", toi, p.idx));
                    }
                }
            } else if let Some(t) = mine.iter().find(|t| t.start_seq < r && t.stop_seq.map(|s| s > r).unwrap_or(true)) {
                // never fully sent: the running transfer completes
                let oti_p = wire::partition(oti.b as u64, tl, oti.e as u64);
                let want: u64 = (0..oti_p.3).map(|s| wire::block_k(oti_p, s)).sum();
                let got: BTreeSet<(u32, u32)> = t
                    .pkts
                    .iter()
                    .map(|x| (trace.pkts[*x].dec.sbn, trace.pkts[*x].dec.esi))
                    .filter(|(s, e)| (*s as u64) < oti_p.3 && (*e as u64) < wire::block_k(oti_p, *s as u64))
                    .collect();
                if trace.finished && (got.len() as u64) < want && tl > 0 {
                    violate(
                        ctx,
                        "C12/first-transfer-cut",
                        "-",
                        format!(
                            "toi={} removed during its first transfer (never fully sent, immediate stop not allowed): only {} of {} source symbols were emitted",
                            toi, got.len(), want
                        ),
                    );
                }
            }
        }
    }
    per_poll_bound += 2 * (n_publish + 2) * max_fdt_pkts;
    // --- reads terminate at a fixed instant
    for (pi, p) in trace.polls.iter().enumerate() {
        if p.n_pkts as u64 > per_poll_bound {
            violate(
                ctx,
                "C12/reads-do-not-terminate",
                "-",
                format!("poll {} at one fixed instant returned {} packets (bound {})", pi, p.n_pkts, per_poll_bound),
            );
            break;
        }
    }
    // --- once no object remains (and no transfer is in flight) only FDT packets
    for s in &trace.snaps {
        if s.nb_objects != 0 {
            continue;
        }
        let in_flight = tr.list.iter().any(|t| t.start_seq < s.seq && t.stop_seq.map(|x| x > s.seq).unwrap_or(true));
        if in_flight {
            continue;
        }
        let next_add = trace
            .ops
            .iter()
            .filter(|r| matches!(r.op, Op::Add(_)) && r.seq > s.seq)
            .map(|r| r.seq)
            .min()
            .unwrap_or(u64::MAX);
        if let Some(p) = trace.pkts.iter().find(|p| p.seq > s.seq && p.seq < next_add && p.dec.toi != 0) {
            violate(
                ctx,
                "C12/object-packet-with-no-object",
                "-",
                format!("no object is left at event {} but packet {} belongs to toi={}", s.seq, p.idx, p.dec.toi),
            );
            break;
        }
    }
}

pub fn run(scn: &Scn, ctx: &Ctx, scratch: &Path) {
    let drv = match Driver::new(&scn.sender, ctx, scratch) {
        Ok(d) => d,
        Err(e) => {
            ctx.borrow_mut().note(&format!("sender-build-failed:{}", truncate(&e, 40)));
            return;
        }
    };
    let trace = drv.run(&scn.sender);
    if trace.pkts.iter().any(|p| p.dec.toi != 0) {
        ctx.borrow_mut().nontrivial = true;
    }
    if !trace.finished {
        ctx.borrow_mut().note("relax:run-capped");
    }
    if trace.ops.iter().any(|r| matches!(r.op, Op::Remove(_)) && r.result == OpResult::Removed(true)) {
        ctx.borrow_mut().count_fault("removal");
    }
    oracle(&scn.sender, ctx, &trace);
}

impl Prop for C12 {
    fn id(&self) -> &'static str {
        "C12"
    }
    fn info(&self) -> PropInfo {
        PropInfo {
            level: "fault_enumeration",
            rule: "part 1 (enumerated): 81 small configurations (3 FEC schemes x max_transfer_count 1-3 x carousel none/delay/interval x immediate-stop unset/false/true; 2 unequal blocks, interleave 2) x remove_object after EVERY packet index 0..44; part 2: seeded lifecycle histories (1-3 objects, transfers 1-4, carousel, removal at random indices incl. while queued, trigger_transfer_at, publishes). The sender is queried (nb_objects, is_added, nb_transfers, get_objects_in_fdt) after every poll. Oracle: transfer counts, counter = completed transfers on the wire, removal semantics (completes first transfer / <= 1 flagged packet), reads at a fixed instant are finite, only FDT packets when no object is left. Non-trivial: object packets emitted; 'fault' = a removal that took effect.",
            assumptions: vec!["Subscriber Start/StopTransfer events delimit transfers", "harness RFC decoder / partition reference"],
            real: vec!["Sender and everything below"],
            stub: vec!["application timeline (add/remove/publish/trigger)", "wall clock", "poll schedule"],
        }
    }
    fn runs(&self, tier: Tier) -> u64 {
        N_ENUM
            + match tier {
                Tier::Quick => 30_000,
                Tier::Thorough => 150_000,
            }
    }
    fn generate(&self, idx: u64, tier: Tier, rng: &mut Rng) -> Value {
        serde_json::to_value(gen(idx, rng, tier)).unwrap()
    }
    fn run(&self, scn: &Value, ctx: &Ctx, scratch: &Path) {
        match serde_json::from_value::<Scn>(scn.clone()) {
            Ok(s) => run(&s, ctx, scratch),
            Err(e) => ctx.borrow_mut().note(&format!("bad-scenario:{}", e)),
        }
    }
    fn exhaustive(&self, _tier: Tier) -> Option<String> {
        Some("remove_object after every packet index 0..44 of 81 small lifecycle configurations".into())
    }
    fn shrink(&self, scn: &Value) -> Vec<Value> {
        let s: Scn = match serde_json::from_value(scn.clone()) {
            Ok(s) => s,
            Err(_) => return vec![],
        };
        shrink_sender_scn(&s.sender)
            .into_iter()
            .map(|c| serde_json::to_value(Scn { sender: c }).unwrap())
            .collect()
    }
}
