//! Views over a sender trace shared by the sender-side properties (C08, C11, C12, C13, C14):
//! transfers delimited by the Subscriber's Start/StopTransfer events in the global event sequence.

use crate::sdrv::*;
use crate::spec::*;
use std::collections::BTreeMap;

#[derive(Clone, Debug)]
pub struct Transfer {
    pub obj: usize,
    pub toi: u128,
    /// 1-based ordinal among the transfers of this object
    pub n: usize,
    pub start_seq: u64,
    pub stop_seq: Option<u64>,
    pub start_us: u64,
    pub stop_us: Option<u64>,
    /// indices into trace.pkts
    pub pkts: Vec<usize>,
}

pub struct Transfers {
    pub list: Vec<Transfer>,
    /// object packets that lie outside every Start..Stop span of their TOI
    pub orphans: Vec<usize>,
    /// protocol problems in the event stream itself (Stop without Start, nested Starts)
    pub event_errors: Vec<String>,
}

pub fn transfers(scn: &SenderScn, trace: &SenderTrace) -> Transfers {
    let mut list: Vec<Transfer> = Vec::new();
    let mut errors = Vec::new();
    // a TOI may be reused once its object is gone (C15 cycles the TOI space): an event belongs to the
    // object that was given this TOI most recently before the event
    let mut adds: Vec<(u128, u64, usize)> = Vec::new();
    for r in &trace.ops {
        if let (Op::Add(i), OpResult::Added(toi)) = (&r.op, &r.result) {
            adds.push((*toi, r.seq, *i));
        }
    }
    let _ = scn;
    let mut open: BTreeMap<u128, usize> = BTreeMap::new();
    let mut count: BTreeMap<usize, usize> = BTreeMap::new();
    for e in &trace.sub {
        let obj = match adds.iter().filter(|(toi, seq, _)| *toi == e.toi && *seq < e.seq).max_by_key(|(_, seq, _)| *seq) {
            Some((_, _, o)) => *o,
            None => {
                errors.push(format!("event for unknown toi {}", e.toi));
                continue;
            }
        };
        if e.start {
            if open.contains_key(&e.toi) {
                errors.push(format!("StartTransfer toi={} while a transfer is open", e.toi));
            }
            let n = count.entry(obj).or_insert(0);
            *n += 1;
            open.insert(e.toi, list.len());
            list.push(Transfer {
                obj,
                toi: e.toi,
                n: *n,
                start_seq: e.seq,
                stop_seq: None,
                start_us: us_of(e.now),
                stop_us: None,
                pkts: Vec::new(),
            });
        } else {
            match open.remove(&e.toi) {
                Some(i) => {
                    list[i].stop_seq = Some(e.seq);
                    list[i].stop_us = Some(us_of(e.now));
                }
                None => errors.push(format!("StopTransfer toi={} without open transfer", e.toi)),
            }
        }
    }
    let mut orphans = Vec::new();
    for p in &trace.pkts {
        if p.dec.toi == 0 || p.dec.close_session {
            continue;
        }
        let t = list.iter_mut().find(|t| {
            t.toi == p.dec.toi && t.start_seq < p.seq && t.stop_seq.map(|s| p.seq < s).unwrap_or(true)
        });
        match t {
            Some(t) => t.pkts.push(p.idx),
            None => orphans.push(p.idx),
        }
    }
    Transfers {
        list,
        orphans,
        event_errors: errors,
    }
}

/// Sequence number of the (first successful) Remove op of an object, if any.
pub fn removal_seq(trace: &SenderTrace, obj: usize) -> Option<u64> {
    trace
        .ops
        .iter()
        .find(|r| matches!(r.op, Op::Remove(i) if i == obj) && r.result == OpResult::Removed(true))
        .map(|r| r.seq)
}

pub fn add_seq(trace: &SenderTrace, obj: usize) -> Option<u64> {
    trace
        .ops
        .iter()
        .find(|r| matches!(r.op, Op::Add(i) if i == obj) && matches!(r.result, OpResult::Added(_)))
        .map(|r| r.seq)
}
