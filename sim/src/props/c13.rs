//! C13 — scheduling: strict queue priority, bounded file multiplexing with round-robin, block
//! interleaving window.

use super::common::*;
use super::sendview::*;
use crate::ctx::{violate, Ctx};
use crate::engine::*;
use crate::rng::Rng;
use crate::sdrv::*;
use crate::spec::*;
use serde::{Deserialize, Serialize};
use serde_json::Value;
use std::collections::{BTreeMap, BTreeSet};
use std::path::Path;

#[derive(Clone, Debug, PartialEq, Serialize, Deserialize)]
pub struct Scn {
    pub sender: SenderScn,
}

pub struct C13;

/// One object of a workload.
#[derive(Clone, Debug)]
struct W {
    prio: u32,
    /// number of source symbols (E = 4 bytes) and maximum source block length
    symbols: u32,
    b: u32,
    transfers: u32,
    /// added after this packet index (None: before the first read)
    after: Option<u64>,
    /// transfer start time, us after the start of the run
    start_us: Option<u64>,
    /// carousel (delay / interval ms), the packet index after which the object is removed, interval mode
    carousel: Option<(u64, u64, bool)>,
    /// paced transfer: target acquisition duration (ms)
    target_ms: Option<u64>,
}

fn w(prio: u32, blocks: u32, transfers: u32, after: Option<u64>) -> W {
    W { prio, symbols: blocks * 3, b: 3, transfers, after, start_us: None, carousel: None, target_ms: None }
}

/// No pacing here. Without start times and carousel every published, unfinished object is ready.
fn workload(queues: Vec<(u32, u32)>, interleave: u8, full_fdt: bool, objs: Vec<W>, seed: u64, burst: Option<u32>) -> SenderScn {
    let mut spec = SenderSpec::basic(OtiSpec::new(Scheme::NoCode, 1400, 64, 0, true));
    spec.queues = queues;
    spec.interleave = interleave;
    spec.full_fdt = full_fdt;
    let mut objects = Vec::new();
    let mut ops = Vec::new();
    let mut late = Vec::new();
    let mut removals = Vec::new();
    for (i, x) in objs.iter().enumerate() {
        let e = 4u16;
        let len = if x.symbols == 0 { 0 } else { x.symbols as usize * e as usize - 1 };
        let mut o = ObjectSpec::basic(len, seed.wrapping_add(i as u64), i);
        let scheme = [Scheme::NoCode, Scheme::Rs28, Scheme::RaptorQ][(seed as usize + i) % 3];
        o.oti = Some(OtiSpec::new(scheme, e, x.b, if scheme == Scheme::NoCode { 0 } else { 1 }, true));
        o.prio = x.prio;
        o.max_transfer_count = x.transfers;
        o.start_ms = x.start_us.map(|u| T0_MS + u / 1000);
        o.target = x.target_ms.map(TargetSpec::DurationMs);
        if let Some((d, k, interval)) = x.carousel {
            o.carousel = Some(if interval { CarouselSpec::IntervalMs(d) } else { CarouselSpec::DelayMs(d) });
            removals.push((i, k));
        }
        objects.push(o);
        match x.after {
            None => ops.push(TimedOp { when: When::AtUs(0), op: Op::Add(i) }),
            Some(k) => late.push((i, k)),
        }
    }
    ops.push(TimedOp { when: When::AtUs(0), op: Op::Publish });
    for (i, k) in late {
        ops.push(TimedOp { when: When::AfterPkt(k), op: Op::Add(i) });
        // (the publication may come some packets after the add: transfers end - and objects are queued again - in between)
        let d = [0u64, 0, 1, 3, 7, 12][((seed >> 8) as usize + i) % 6];
        ops.push(TimedOp { when: When::AfterPkt(k + d), op: Op::Publish });
    }
    for (i, k) in removals {
        ops.push(TimedOp { when: When::AfterPkt(k), op: Op::Remove(i) });
        ops.push(TimedOp { when: When::AtUs(60_000), op: Op::Remove(i) });
    }
    // with paced objects the polling period does not divide the ticks (lateness must not accumulate)
    let paced = objs.iter().any(|x| x.target_ms.is_some());
    let mut poll = PollSpec::simple(if paced { [700u64, 1300, 1000, 2300][(seed % 4) as usize] } else { 1000 });
    poll.burst = burst;
    poll.max_polls = 20_000;
    poll.idle_polls_after_done = 1;
    SenderScn { spec, objects, ops, poll, snapshots: false }
}

/// Small grid enumerated by index: queues x multiplex x interleave x object mixes.
fn enumerated(idx: u64) -> Option<SenderScn> {
    let mixes: Vec<Vec<W>> = vec![
        vec![w(0, 2, 1, None), w(0, 3, 1, None), w(0, 1, 1, None)],
        vec![w(0, 4, 1, None), w(1, 2, 1, None), w(0, 2, 1, Some(5))],
        vec![w(1, 3, 1, None), w(0, 2, 1, Some(3)), w(2, 2, 1, None), w(0, 0, 1, Some(9))],
        vec![w(0, 2, 2, None), w(0, 2, 1, None), w(1, 1, 1, None), w(1, 3, 1, None)],
        vec![w(2, 3, 1, None), w(1, 3, 1, Some(4)), w(0, 3, 1, Some(8))],
        vec![w(0, 1, 1, None), w(0, 1, 1, None), w(0, 1, 1, None), w(0, 4, 1, None)],
    ];
    let n_mix = mixes.len() as u64;
    let total = n_mix * 4 * 4 * 2 * 2;
    if idx >= total {
        return None;
    }
    let mix = &mixes[(idx % n_mix) as usize];
    let mult = ((idx / n_mix) % 4) as u32;
    let interleave = 1 + ((idx / (n_mix * 4)) % 4) as u8;
    let full = (idx / (n_mix * 16)) % 2 == 0;
    let burst = if (idx / (n_mix * 32)) % 2 == 0 { None } else { Some(3) };
    let prios: BTreeSet<u32> = mix.iter().map(|m| m.prio).collect();
    let queues = prios.iter().map(|p| (*p, mult)).collect();
    Some(workload(queues, interleave, full, mix.clone(), idx, burst))
}

const N_ENUM: u64 = 6 * 4 * 4 * 2 * 2;

/// Being-transferred mode in which the publication made at a transfer start fails whenever a second object
/// would be listed (Raptor FDT of 1400-byte symbols, see C12): starts are postponed, the ADD ORDER must survive.
/// All objects have metadata of the same length, so the object that can be announced next is always the oldest.
fn gen_postponed(rng: &mut Rng) -> SenderScn {
    let mut spec = SenderSpec::basic(OtiSpec::new(Scheme::Raptor, 1400, 64, 1, true));
    spec.full_fdt = false;
    spec.queues = vec![(0, rng.range(2, 4) as u32)];
    spec.interleave = rng.range(1, 3) as u8;
    let n = rng.range(3, 5) as usize;
    let mut objects = Vec::new();
    let mut ops = Vec::new();
    for i in 0..n {
        let mut o = ObjectSpec::basic(rng.range(100, 400) as usize, rng.next_u64(), i);
        o.oti = Some(OtiSpec::new(Scheme::NoCode, 16, 4, 0, true));
        objects.push(o);
        ops.push(TimedOp { when: if i < 2 || rng.chance(0.6) { When::AtUs(0) } else { When::AfterPkt(rng.range(1, 30)) }, op: Op::Add(i) });
    }
    let mut poll = PollSpec::simple(1000);
    poll.burst = if rng.chance(0.5) { None } else { Some(rng.range(1, 6) as u32) };
    poll.max_polls = 3000;
    poll.idle_polls_after_done = 1;
    SenderScn { spec, objects, ops, poll, snapshots: false }
}

pub fn gen(idx: u64, rng: &mut Rng, _tier: Tier) -> Scn {
    if let Some(s) = enumerated(idx) {
        return Scn { sender: s };
    }
    if rng.chance(0.04) {
        return Scn { sender: gen_postponed(rng) };
    }
    let nq = rng.range(1, 3) as usize;
    let mut prios = vec![0u32, 1, 2, 3, 4];
    rng.shuffle(&mut prios);
    let mut queues: Vec<(u32, u32)> = prios[..nq].iter().map(|p| (*p, rng.range(0, 3) as u32)).collect();
    queues.sort();
    let n = rng.range(1, 6) as usize;
    let mut objs = Vec::new();
    // half of the seeded workloads also have start times and carousel objects (not-ready objects in the
    // queues) and uneven block partitions
    let timed = rng.chance(0.5);
    for _ in 0..n {
        let b = if timed { rng.range(2, 5) as u32 } else { 3 };
        let symbols = if timed { rng.range(0, 4 * b as u64 + 2) as u32 } else { rng.range(0, 4) as u32 * 3 };
        let carousel = if timed && rng.chance(0.25) { Some((*rng.pick(&[0u64, 1, 3, 8]), rng.range(5, 80), rng.chance(0.4))) } else { None };
        objs.push(W {
            prio: queues[rng.below(nq as u64) as usize].0,
            symbols,
            b,
            // (a carousel object with several transfers sends them back to back, then waits for its delay)
            transfers: if carousel.map(|c| c.2).unwrap_or(false) { 1 } else { *rng.pick(&[1u32, 1, 2]) },
            after: if rng.chance(0.35) { Some(rng.range(1, 40)) } else { None },
            start_us: if timed && rng.chance(0.4) { Some(rng.range(0, 12) * 1000 + 500) } else { None },
            carousel,
            target_ms: if timed && rng.chance(0.2) { Some(*rng.pick(&[3u64, 10, 40])) } else { None },
        });
    }
    if objs.iter().all(|o| o.after.is_some()) {
        objs[0].after = None;
    }
    let mut s = workload(
        queues,
        rng.range(1, 4) as u8,
        rng.chance(0.5),
        objs,
        rng.next_u64(),
        if rng.chance(0.5) { None } else { Some(rng.range(1, 7) as u32) },
    );
    // a stoppable object of the highest-priority queue removed right at the end of its first transfer (between its last
    // packet and the next poll): the queue goes on with its next object at once
    if rng.chance(0.3) {
        let top = s.spec.queues.iter().map(|q| q.0).min().unwrap_or(0);
        let x = (0..s.objects.len()).find(|i| {
            let o = &s.objects[*i];
            o.prio == top && o.len > 0 && o.carousel.is_none() && o.start_ms.is_none() && o.target.is_none() && s.ops.iter().any(|t| t.op == Op::Add(*i) && t.when == When::AtUs(0))
        });
        if let Some(x) = x {
            let (symbols, blocks, parity) = {
                let o = &s.objects[x];
                let oti = o.oti.as_ref().unwrap();
                let symbols = (o.len as u64 + oti.e as u64 - 1) / oti.e as u64;
                (symbols, (symbols + oti.b as u64 - 1) / oti.b as u64, oti.parity as u64)
            };
            s.objects[x].immediate_stop = Some(true);
            let k = (1 + symbols + blocks * parity) as i64 + *rng.pick(&[-1i64, 0, 0, 0, 0, 0, 1]);
            s.ops.push(TimedOp { when: When::AfterPkt(k.max(1) as u64), op: Op::Remove(x) });
        }
    }
    // set_complete(): later adds are refused, the scheduling of what is queued does not change
    if rng.chance(0.08) {
        let when = if rng.chance(0.5) { When::AtUs(0) } else { When::AfterPkt(rng.range(1, 60)) };
        s.ops.push(TimedOp { when, op: Op::SetComplete });
    }
    Scn { sender: s }
}

pub fn oracle(scn: &SenderScn, ctx: &Ctx, trace: &SenderTrace) {
    let tr = transfers(scn, trace);
    for e in &tr.event_errors {
        violate(ctx, "C13/transfer-events", "-", e.clone());
    }
    // readiness intervals in event-sequence space
    struct Ready {
        obj: usize,
        prio: u32,
        from: u64,
        until: u64,
    }
    let mut ready: Vec<Ready> = Vec::new();
    // the first-transfer readiness of every object, for the FIFO rule
    let mut first_ready: Vec<Ready> = Vec::new();
    for (i, o) in scn.objects.iter().enumerate() {
        let a = match add_seq(trace, i) {
            Some(a) => a,
            None => continue,
        };
        let mut from = if scn.spec.full_fdt {
            match trace.ops.iter().find(|r| r.seq > a && r.result == OpResult::Published(true)) {
                Some(r) => r.seq,
                None => continue,
            }
        } else {
            a
        };
        // a transfer start time: definitely ready from the first poll strictly after it
        if let Some(ms) = o.start_ms {
            match trace.polls.iter().find(|p| p.t_us > ms * 1000 && p.seq_begin > from) {
                Some(p) => from = from.max(p.seq_begin),
                None => continue,
            }
        }
        let removed = removal_seq(trace, i).unwrap_or(u64::MAX);
        let mine: Vec<&Transfer> = tr.list.iter().filter(|t| t.obj == i).collect();
        let last_pkt_seq = |t: &Transfer| t.pkts.last().map(|p| trace.pkts[*p].seq);
        if o.target.is_some() {
            // paced: definitely ready only until its first packet (the following ones wait for their tick)
            // (and only once it holds a multiplex slot: from the start of its transfer)
            if let Some(t0) = mine.first() {
                let until = t0.pkts.first().map(|p| trace.pkts[*p].seq).unwrap_or(u64::MAX).min(removed);
                ready.push(Ready { obj: i, prio: o.prio, from: t0.start_seq, until });
            }
            // ... and again whenever its next packet is DUE: packet k of a transfer is due at start + k * tick
            // (tick = target / number of source packets); from the first poll strictly after that instant until the
            // packet is emitted the object is not waiting for a pacing tick
            if let Some(TargetSpec::DurationMs(d)) = &o.target {
                let nb = ((o.len as u64 + 3) / 4).max(1); // E = 4 in these workloads, cenc null
                for t in mine.iter() {
                    for (k, p) in t.pkts.iter().enumerate().skip(1) {
                        let due = t.start_us + (k as u128 * (*d as u128 * 1000) / nb as u128) as u64;
                        if let Some(poll) = trace.polls.iter().find(|q| q.t_us > due + 1 && q.seq_begin > t.start_seq) {
                            let emitted = trace.pkts[*p].seq;
                            if poll.seq_begin < emitted {
                                ready.push(Ready { obj: i, prio: o.prio, from: poll.seq_begin, until: emitted.min(removed) });
                            }
                        }
                    }
                }
            }
            continue;
        }
        if scn.objects.iter().any(|x| x.prio == o.prio && x.target.is_some()) {
            // a paced object of this queue may hold a multiplex slot while it waits for its tick: another object
            // of the queue that waits for a slot is not "ready to send"; it is once it is in transmission
            for t in mine.iter() {
                let until = last_pkt_seq(t).unwrap_or(t.start_seq).min(removed);
                ready.push(Ready { obj: i, prio: o.prio, from: t.start_seq, until });
            }
            continue;
        }
        if o.carousel.is_some() {
            // definitely ready: until the last packet of the first transfer, then during each later transfer
            // (between two transfers it waits for its carousel delay)
            // bursts of max_transfer_count transfers: ready from the start of a burst to the last packet of its last
            // transfer (inside a burst the next transfer follows at once)
            let step = o.max_transfer_count.max(1) as usize;
            if mine.is_empty() {
                ready.push(Ready { obj: i, prio: o.prio, from, until: removed });
                first_ready.push(Ready { obj: i, prio: o.prio, from, until: removed });
            }
            let bursts: Vec<&[&Transfer]> = mine.chunks(step).collect();
            for (c, burst) in bursts.iter().enumerate() {
                // a later burst is DUE once the carousel delay has elapsed since the previous transfer ended (or the
                // interval since it started): from the first poll strictly after that instant the object is ready
                let mut f = if c == 0 { from } else { burst[0].start_seq };
                if c > 0 {
                    let prev = bursts[c - 1].last().unwrap();
                    if let Some(stop) = prev.stop_us {
                        let due = match o.carousel {
                            Some(CarouselSpec::DelayMs(d)) => stop + d * 1000,
                            Some(CarouselSpec::IntervalMs(d)) => stop.max(prev.start_us + d * 1000),
                            Some(CarouselSpec::DelayMax) | Some(CarouselSpec::IntervalMax) => u64::MAX / 2,
                            None => stop,
                        };
                        let after = prev.stop_seq.unwrap_or(0);
                        if let Some(p) = trace.polls.iter().find(|p| p.t_us > due + 1 && p.seq_begin > after) {
                            f = f.min(p.seq_begin);
                        }
                    }
                }
                let last = burst.last().unwrap();
                // an incomplete burst at the end of the run (removed, or the run ended): until its last packet
                let until = last_pkt_seq(last).unwrap_or(last.start_seq).min(removed);
                ready.push(Ready { obj: i, prio: o.prio, from: f, until });
                if c == 0 {
                    let u0 = last_pkt_seq(burst[0]).unwrap_or(u64::MAX).min(removed);
                    first_ready.push(Ready { obj: i, prio: o.prio, from, until: u0 });
                }
            }
            continue;
        }
        let until = if mine.len() as u32 >= o.max_transfer_count {
            // last packet of its final transfer
            mine.last().and_then(|t| last_pkt_seq(t)).unwrap_or(u64::MAX)
        } else {
            u64::MAX
        }
        .min(removed);
        ready.push(Ready { obj: i, prio: o.prio, from, until });
        first_ready.push(Ready { obj: i, prio: o.prio, from, until });
    }
    // 1. strict priority
    for p in &trace.pkts {
        if p.dec.toi == 0 || p.dec.close_session {
            continue;
        }
        let obj = match trace.obj_toi.iter().position(|t| *t == Some(p.dec.toi)) {
            Some(o) => o,
            None => continue,
        };
        let prio = scn.objects[obj].prio;
        if let Some(r) = ready.iter().find(|r| r.prio < prio && r.from < p.seq && p.seq < r.until) {
            violate(
                ctx,
                "C13/priority-inversion",
                "-",
                format!(
                    "packet {} of object {} (queue {}) is emitted while object {} of queue {} is ready",
                    p.idx, obj, prio, r.obj, r.prio
                ),
            );
            break;
        }
    }
    // 2. FIFO admission per queue: when an object starts, no object of the same queue that was added before
    // it is ready and still waiting for its first transfer
    for b in &first_ready {
        let sb = match tr.list.iter().find(|t| t.obj == b.obj) {
            Some(t) => t.start_seq,
            None => continue,
        };
        let add_b = add_seq(trace, b.obj).unwrap_or(u64::MAX);
        for a in &first_ready {
            if a.obj == b.obj || a.prio != b.prio || add_seq(trace, a.obj).unwrap_or(u64::MAX) >= add_b {
                continue;
            }
            let sa = tr.list.iter().find(|t| t.obj == a.obj).map(|t| t.start_seq).unwrap_or(u64::MAX);
            if a.from < sb && sb < sa && sb < a.until {
                violate(
                    ctx,
                    "C13/not-fifo",
                    "-",
                    format!(
                        "queue {}: object {} (added first, ready since event {}) is still waiting when object {} starts at event {}",
                        a.prio, a.obj, a.from, b.obj, sb
                    ),
                );
            }
        }
    }
    // 3. multiplex bound on Start/Stop events
    for (prio, m) in &scn.spec.queues {
        let limit = (*m).max(1) as usize;
        let mut open: BTreeSet<usize> = BTreeSet::new();
        let mut evs: Vec<(u64, bool, usize)> = Vec::new();
        for (ti, t) in tr.list.iter().enumerate() {
            if scn.objects[t.obj].prio != *prio {
                continue;
            }
            evs.push((t.start_seq, true, ti));
            if let Some(s) = t.stop_seq {
                evs.push((s, false, ti));
            }
        }
        evs.sort();
        for (seq, start, ti) in evs {
            if start {
                open.insert(ti);
                if open.len() > limit {
                    violate(
                        ctx,
                        "C13/multiplex-bound",
                        "-",
                        format!("queue {}: {} objects in transmission at event {} (multiplex_files={})", prio, open.len(), seq, m),
                    );
                    break;
                }
            } else {
                open.remove(&ti);
            }
        }
    }
    // 4. round robin between transfers of one queue that overlap
    for (ia, a) in tr.list.iter().enumerate() {
        for b in tr.list.iter().skip(ia + 1) {
            if scn.objects[a.obj].prio != scn.objects[b.obj].prio || a.obj == b.obj {
                continue;
            }
            if scn.objects[a.obj].target.is_some() || scn.objects[b.obj].target.is_some() {
                continue; // a paced object waits for its ticks
            }
            let (fa, la) = match (a.pkts.first(), a.pkts.last()) {
                (Some(f), Some(l)) => (trace.pkts[*f].seq, trace.pkts[*l].seq),
                _ => continue,
            };
            let (fb, lb) = match (b.pkts.first(), b.pkts.last()) {
                (Some(f), Some(l)) => (trace.pkts[*f].seq, trace.pkts[*l].seq),
                _ => continue,
            };
            let lo = fa.max(fb);
            let hi = la.min(lb);
            if lo >= hi {
                continue;
            }
            let ca = a.pkts.iter().filter(|p| (lo..=hi).contains(&trace.pkts[**p].seq)).count() as i64;
            let cb = b.pkts.iter().filter(|p| (lo..=hi).contains(&trace.pkts[**p].seq)).count() as i64;
            if (ca - cb).abs() > 1 {
                violate(
                    ctx,
                    "C13/not-round-robin",
                    "-",
                    format!(
                        "objects {} and {} of queue {} are both in transmission over events {}..{} but sent {} and {} packets",
                        a.obj, b.obj, scn.objects[a.obj].prio, lo, hi, ca, cb
                    ),
                );
            }
        }
    }
    // 5. interleave window and block order per transfer
    for t in &tr.list {
        let mut first: BTreeMap<u32, usize> = BTreeMap::new();
        let mut last: BTreeMap<u32, usize> = BTreeMap::new();
        for (pos, i) in t.pkts.iter().enumerate() {
            let s = trace.pkts[*i].dec.sbn;
            first.entry(s).or_insert(pos);
            last.insert(s, pos);
        }
        let mut max_open = 0;
        for pos in 0..t.pkts.len() {
            let open = first.iter().filter(|(s, f)| **f <= pos && last[*s] >= pos).count();
            max_open = max_open.max(open);
        }
        if max_open > scn.spec.interleave.max(1) as usize {
            violate(
                ctx,
                "C13/interleave-window",
                "-",
                format!("toi={} transfer {}: {} blocks open at once, interleave_blocks={}", t.toi, t.n, max_open, scn.spec.interleave),
            );
        }
        let mut order: Vec<(usize, u32)> = first.iter().map(|(s, f)| (*f, *s)).collect();
        order.sort();
        if order.windows(2).any(|w| w[1].1 < w[0].1) {
            violate(ctx, "C13/block-order", "-", format!("toi={} transfer {}: blocks open in order {:?}", t.toi, t.n, order.iter().map(|x| x.1).collect::<Vec<_>>()));
        }
    }
}

pub fn run(scn: &Scn, ctx: &Ctx, scratch: &Path) {
    let drv = match Driver::new(&scn.sender, ctx, scratch) {
        Ok(d) => d,
        Err(e) => {
            ctx.borrow_mut().note(&format!("sender-build-failed:{}", truncate(&e, 40)));
            return;
        }
    };
    let trace = drv.run(&scn.sender);
    if trace.pkts.iter().filter(|p| p.dec.toi != 0).count() > 1 {
        ctx.borrow_mut().nontrivial = true;
    }
    oracle(&scn.sender, ctx, &trace);
}

impl Prop for C13 {
    fn id(&self) -> &'static str {
        "C13"
    }
    fn info(&self) -> PropInfo {
        PropInfo {
            level: "exploration",
            rule: "part 1 (enumerated grid): 6 object mixes (1-3 queues, 3-4 objects of 0-4 blocks, late additions) x multiplex_files 0-3 x interleave_blocks 1-4 x publish mode x burst; part 2: seeded workloads (1-3 queues, 1-6 objects, multiplex 0-3, interleave 1-4, sizes 0-4 blocks, 1-2 transfers, objects added after arbitrary packet indices, poll bursts). No start times, pacing or carousel, so every published unfinished object is ready. Oracle per packet / per Start-Stop event: no lower-priority packet while a higher-priority object is ready, FIFO admission, at most max(1,multiplex) transfers open per queue, packet counts of overlapping transfers of one queue differ by <= 1, at most interleave_blocks blocks open, blocks open in increasing SBN. Non-trivial: >= 2 object packets.",
            assumptions: vec!["readiness = added and (in full-FDT mode) published, until the last packet of the final transfer", "Subscriber events delimit transfers"],
            real: vec!["Sender and everything below"],
            stub: vec!["application timeline", "wall clock", "poll schedule"],
        }
    }
    fn runs(&self, tier: Tier) -> u64 {
        N_ENUM
            + match tier {
                Tier::Quick => 40_000,
                Tier::Thorough => 250_000,
            }
    }
    fn generate(&self, idx: u64, tier: Tier, rng: &mut Rng) -> Value {
        serde_json::to_value(gen(idx, rng, tier)).unwrap()
    }
    fn run(&self, scn: &Value, ctx: &Ctx, scratch: &Path) {
        match serde_json::from_value::<Scn>(scn.clone()) {
            Ok(s) => run(&s, ctx, scratch),
            Err(e) => ctx.borrow_mut().note(&format!("bad-scenario:{}", e)),
        }
    }
    fn exhaustive(&self, _tier: Tier) -> Option<String> {
        Some("grid of 6 object mixes x multiplex 0-3 x interleave 1-4 x publish mode x burst (384 workloads)".into())
    }
    fn shrink(&self, scn: &Value) -> Vec<Value> {
        let s: Scn = match serde_json::from_value(scn.clone()) {
            Ok(s) => s,
            Err(_) => return vec![],
        };
        shrink_sender_scn(&s.sender)
            .into_iter()
            .map(|c| serde_json::to_value(Scn { sender: c }).unwrap())
            .collect()
    }
}
