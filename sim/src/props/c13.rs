//! C13 — scheduling: strict queue priority, bounded file multiplexing with round-robin, block
//! interleaving window.

use super::common::*;
use super::sendview::*;
use crate::ctx::{violate, Ctx};
use crate::engine::*;
use crate::rng::Rng;
use crate::sdrv::*;
use crate::spec::*;
use serde::{Deserialize, Serialize};
use serde_json::Value;
use std::collections::{BTreeMap, BTreeSet};
use std::path::Path;

#[derive(Clone, Debug, PartialEq, Serialize, Deserialize)]
pub struct Scn {
    pub sender: SenderScn,
}

pub struct C13;

/// No start times, pacing or carousel here: every published, unfinished object is ready.
fn workload(
    queues: Vec<(u32, u32)>,
    interleave: u8,
    full_fdt: bool,
    objs: Vec<(u32 /*prio*/, u32 /*blocks*/, u32 /*transfers*/, Option<u64> /*add after pkt*/)>,
    seed: u64,
    burst: Option<u32>,
) -> SenderScn {
    let mut spec = SenderSpec::basic(OtiSpec::new(Scheme::NoCode, 1400, 64, 0, true));
    spec.queues = queues;
    spec.interleave = interleave;
    spec.full_fdt = full_fdt;
    let mut objects = Vec::new();
    let mut ops = Vec::new();
    let mut late = Vec::new();
    for (i, (prio, blocks, transfers, after)) in objs.iter().enumerate() {
        let e = 4u16;
        let b = 3u32;
        let len = if *blocks == 0 { 0 } else { (*blocks as usize * b as usize) * e as usize - 1 };
        let mut o = ObjectSpec::basic(len, seed.wrapping_add(i as u64), i);
        let scheme = [Scheme::NoCode, Scheme::Rs28, Scheme::RaptorQ][(seed as usize + i) % 3];
        o.oti = Some(OtiSpec::new(scheme, e, b, if scheme == Scheme::NoCode { 0 } else { 1 }, true));
        o.prio = *prio;
        o.max_transfer_count = *transfers;
        objects.push(o);
        match after {
            None => ops.push(TimedOp { when: When::AtUs(0), op: Op::Add(i) }),
            Some(k) => late.push((i, *k)),
        }
    }
    ops.push(TimedOp { when: When::AtUs(0), op: Op::Publish });
    for (i, k) in late {
        ops.push(TimedOp { when: When::AfterPkt(k), op: Op::Add(i) });
        ops.push(TimedOp { when: When::AfterPkt(k), op: Op::Publish });
    }
    let mut poll = PollSpec::simple(1000);
    poll.burst = burst;
    poll.max_polls = 20_000;
    poll.idle_polls_after_done = 1;
    SenderScn { spec, objects, ops, poll, snapshots: false }
}

/// Small grid enumerated by index: queues x multiplex x interleave x object mixes.
fn enumerated(idx: u64) -> Option<SenderScn> {
    let mixes: Vec<Vec<(u32, u32, u32, Option<u64>)>> = vec![
        vec![(0, 2, 1, None), (0, 3, 1, None), (0, 1, 1, None)],
        vec![(0, 4, 1, None), (1, 2, 1, None), (0, 2, 1, Some(5))],
        vec![(1, 3, 1, None), (0, 2, 1, Some(3)), (2, 2, 1, None), (0, 0, 1, Some(9))],
        vec![(0, 2, 2, None), (0, 2, 1, None), (1, 1, 1, None), (1, 3, 1, None)],
        vec![(2, 3, 1, None), (1, 3, 1, Some(4)), (0, 3, 1, Some(8))],
        vec![(0, 1, 1, None), (0, 1, 1, None), (0, 1, 1, None), (0, 4, 1, None)],
    ];
    let n_mix = mixes.len() as u64;
    let total = n_mix * 4 * 4 * 2 * 2;
    if idx >= total {
        return None;
    }
    let mix = &mixes[(idx % n_mix) as usize];
    let mult = ((idx / n_mix) % 4) as u32;
    let interleave = 1 + ((idx / (n_mix * 4)) % 4) as u8;
    let full = (idx / (n_mix * 16)) % 2 == 0;
    let burst = if (idx / (n_mix * 32)) % 2 == 0 { None } else { Some(3) };
    let prios: BTreeSet<u32> = mix.iter().map(|m| m.0).collect();
    let queues = prios.iter().map(|p| (*p, mult)).collect();
    Some(workload(queues, interleave, full, mix.clone(), idx, burst))
}

const N_ENUM: u64 = 6 * 4 * 4 * 2 * 2;

pub fn gen(idx: u64, rng: &mut Rng, _tier: Tier) -> Scn {
    if let Some(s) = enumerated(idx) {
        return Scn { sender: s };
    }
    let nq = rng.range(1, 3) as usize;
    let mut prios = vec![0u32, 1, 2, 3, 4];
    rng.shuffle(&mut prios);
    let mut queues: Vec<(u32, u32)> = prios[..nq].iter().map(|p| (*p, rng.range(0, 3) as u32)).collect();
    queues.sort();
    let n = rng.range(1, 6) as usize;
    let mut objs = Vec::new();
    for _ in 0..n {
        objs.push((
            queues[rng.below(nq as u64) as usize].0,
            rng.range(0, 4) as u32,
            *rng.pick(&[1u32, 1, 2]),
            if rng.chance(0.35) { Some(rng.range(1, 40)) } else { None },
        ));
    }
    if objs.iter().all(|o| o.3.is_some()) {
        objs[0].3 = None;
    }
    let s = workload(
        queues,
        rng.range(1, 4) as u8,
        rng.chance(0.5),
        objs,
        rng.next_u64(),
        if rng.chance(0.5) { None } else { Some(rng.range(1, 7) as u32) },
    );
    Scn { sender: s }
}

pub fn oracle(scn: &SenderScn, ctx: &Ctx, trace: &SenderTrace) {
    let tr = transfers(scn, trace);
    for e in &tr.event_errors {
        violate(ctx, "C13/transfer-events", "-", e.clone());
    }
    // readiness intervals in event-sequence space
    struct Ready {
        obj: usize,
        prio: u32,
        from: u64,
        until: u64,
    }
    let mut ready: Vec<Ready> = Vec::new();
    for (i, o) in scn.objects.iter().enumerate() {
        let a = match add_seq(trace, i) {
            Some(a) => a,
            None => continue,
        };
        let from = if scn.spec.full_fdt {
            match trace.ops.iter().find(|r| r.seq > a && r.result == OpResult::Published(true)) {
                Some(r) => r.seq,
                None => continue,
            }
        } else {
            a
        };
        let mine: Vec<&Transfer> = tr.list.iter().filter(|t| t.obj == i).collect();
        let until = if mine.len() as u32 >= o.max_transfer_count {
            // last packet of its final transfer
            mine.last()
                .and_then(|t| t.pkts.last())
                .map(|p| trace.pkts[*p].seq)
                .unwrap_or(u64::MAX)
        } else {
            u64::MAX
        };
        ready.push(Ready { obj: i, prio: o.prio, from, until });
    }
    // 1. strict priority
    for p in &trace.pkts {
        if p.dec.toi == 0 || p.dec.close_session {
            continue;
        }
        let obj = match trace.obj_toi.iter().position(|t| *t == Some(p.dec.toi)) {
            Some(o) => o,
            None => continue,
        };
        let prio = scn.objects[obj].prio;
        if let Some(r) = ready.iter().find(|r| r.prio < prio && r.from < p.seq && p.seq < r.until) {
            violate(
                ctx,
                "C13/priority-inversion",
                "-",
                format!(
                    "packet {} of object {} (queue {}) is emitted while object {} of queue {} is ready",
                    p.idx, obj, prio, r.obj, r.prio
                ),
            );
            break;
        }
    }
    // 2. FIFO admission per queue (by first StartTransfer)
    let mut by_queue: BTreeMap<u32, Vec<(u64, u64, usize)>> = BTreeMap::new();
    for r in &ready {
        if let Some(t) = tr.list.iter().find(|t| t.obj == r.obj) {
            by_queue.entry(r.prio).or_default().push((r.from, t.start_seq, r.obj));
        }
    }
    for (q, v) in &by_queue {
        for a in v {
            for b in v {
                // a became ready strictly before b yet b started first: only a violation when a was
                // ready before b started
                if a.0 < b.0 && b.1 < a.1 && a.0 < b.1 {
                    violate(
                        ctx,
                        "C13/not-fifo",
                        "-",
                        format!("queue {}: object {} was ready first (event {}) but object {} started before it", q, a.2, a.0, b.2),
                    );
                }
            }
        }
    }
    // 3. multiplex bound on Start/Stop events
    for (prio, m) in &scn.spec.queues {
        let limit = (*m).max(1) as usize;
        let mut open: BTreeSet<usize> = BTreeSet::new();
        let mut evs: Vec<(u64, bool, usize)> = Vec::new();
        for (ti, t) in tr.list.iter().enumerate() {
            if scn.objects[t.obj].prio != *prio {
                continue;
            }
            evs.push((t.start_seq, true, ti));
            if let Some(s) = t.stop_seq {
                evs.push((s, false, ti));
            }
        }
        evs.sort();
        for (seq, start, ti) in evs {
            if start {
                open.insert(ti);
                if open.len() > limit {
                    violate(
                        ctx,
                        "C13/multiplex-bound",
                        "-",
                        format!("queue {}: {} objects in transmission at event {} (multiplex_files={})", prio, open.len(), seq, m),
                    );
                    break;
                }
            } else {
                open.remove(&ti);
            }
        }
    }
    // 4. round robin between transfers of one queue that overlap
    for (ia, a) in tr.list.iter().enumerate() {
        for b in tr.list.iter().skip(ia + 1) {
            if scn.objects[a.obj].prio != scn.objects[b.obj].prio || a.obj == b.obj {
                continue;
            }
            let (fa, la) = match (a.pkts.first(), a.pkts.last()) {
                (Some(f), Some(l)) => (trace.pkts[*f].seq, trace.pkts[*l].seq),
                _ => continue,
            };
            let (fb, lb) = match (b.pkts.first(), b.pkts.last()) {
                (Some(f), Some(l)) => (trace.pkts[*f].seq, trace.pkts[*l].seq),
                _ => continue,
            };
            let lo = fa.max(fb);
            let hi = la.min(lb);
            if lo >= hi {
                continue;
            }
            let ca = a.pkts.iter().filter(|p| (lo..=hi).contains(&trace.pkts[**p].seq)).count() as i64;
            let cb = b.pkts.iter().filter(|p| (lo..=hi).contains(&trace.pkts[**p].seq)).count() as i64;
            if (ca - cb).abs() > 1 {
                violate(
                    ctx,
                    "C13/not-round-robin",
                    "-",
                    format!(
                        "objects {} and {} of queue {} are both in transmission over events {}..{} but sent {} and {} packets",
                        a.obj, b.obj, scn.objects[a.obj].prio, lo, hi, ca, cb
                    ),
                );
            }
        }
    }
    // 5. interleave window and block order per transfer
    for t in &tr.list {
        let mut first: BTreeMap<u32, usize> = BTreeMap::new();
        let mut last: BTreeMap<u32, usize> = BTreeMap::new();
        for (pos, i) in t.pkts.iter().enumerate() {
            let s = trace.pkts[*i].dec.sbn;
            first.entry(s).or_insert(pos);
            last.insert(s, pos);
        }
        let mut max_open = 0;
        for pos in 0..t.pkts.len() {
            let open = first.iter().filter(|(s, f)| **f <= pos && last[*s] >= pos).count();
            max_open = max_open.max(open);
        }
        if max_open > scn.spec.interleave.max(1) as usize {
            violate(
                ctx,
                "C13/interleave-window",
                "-",
                format!("toi={} transfer {}: {} blocks open at once, interleave_blocks={}", t.toi, t.n, max_open, scn.spec.interleave),
            );
        }
        let mut order: Vec<(usize, u32)> = first.iter().map(|(s, f)| (*f, *s)).collect();
        order.sort();
        if order.windows(2).any(|w| w[1].1 < w[0].1) {
            violate(ctx, "C13/block-order", "-", format!("toi={} transfer {}: blocks open in order {:?}", t.toi, t.n, order.iter().map(|x| x.1).collect::<Vec<_>>()));
        }
    }
}

pub fn run(scn: &Scn, ctx: &Ctx, scratch: &Path) {
    let drv = match Driver::new(&scn.sender, ctx, scratch) {
        Ok(d) => d,
        Err(e) => {
            ctx.borrow_mut().note(&format!("sender-build-failed:{}", truncate(&e, 40)));
            return;
        }
    };
    let trace = drv.run(&scn.sender);
    if trace.pkts.iter().filter(|p| p.dec.toi != 0).count() > 1 {
        ctx.borrow_mut().nontrivial = true;
    }
    oracle(&scn.sender, ctx, &trace);
}

impl Prop for C13 {
    fn id(&self) -> &'static str {
        "C13"
    }
    fn info(&self) -> PropInfo {
        PropInfo {
            level: "exploration",
            rule: "part 1 (enumerated grid): 6 object mixes (1-3 queues, 3-4 objects of 0-4 blocks, late additions) x multiplex_files 0-3 x interleave_blocks 1-4 x publish mode x burst; part 2: seeded workloads (1-3 queues, 1-6 objects, multiplex 0-3, interleave 1-4, sizes 0-4 blocks, 1-2 transfers, objects added after arbitrary packet indices, poll bursts). No start times, pacing or carousel, so every published unfinished object is ready. Oracle per packet / per Start-Stop event: no lower-priority packet while a higher-priority object is ready, FIFO admission, at most max(1,multiplex) transfers open per queue, packet counts of overlapping transfers of one queue differ by <= 1, at most interleave_blocks blocks open, blocks open in increasing SBN. Non-trivial: >= 2 object packets.",
            assumptions: vec!["readiness = added and (in full-FDT mode) published, until the last packet of the final transfer", "Subscriber events delimit transfers"],
            real: vec!["Sender and everything below"],
            stub: vec!["application timeline", "wall clock", "poll schedule"],
        }
    }
    fn runs(&self, tier: Tier) -> u64 {
        N_ENUM
            + match tier {
                Tier::Quick => 40_000,
                Tier::Thorough => 250_000,
            }
    }
    fn generate(&self, idx: u64, tier: Tier, rng: &mut Rng) -> Value {
        serde_json::to_value(gen(idx, rng, tier)).unwrap()
    }
    fn run(&self, scn: &Value, ctx: &Ctx, scratch: &Path) {
        match serde_json::from_value::<Scn>(scn.clone()) {
            Ok(s) => run(&s, ctx, scratch),
            Err(e) => ctx.borrow_mut().note(&format!("bad-scenario:{}", e)),
        }
    }
    fn exhaustive(&self, _tier: Tier) -> Option<String> {
        Some("grid of 6 object mixes x multiplex 0-3 x interleave 1-4 x publish mode x burst (384 workloads)".into())
    }
    fn shrink(&self, scn: &Value) -> Vec<Value> {
        let s: Scn = match serde_json::from_value(scn.clone()) {
            Ok(s) => s,
            Err(_) => return vec![],
        };
        shrink_sender_scn(&s.sender)
            .into_iter()
            .map(|c| serde_json::to_value(Scn { sender: c }).unwrap())
            .collect()
    }
}
