//! C09 — object-writer protocol: open, writes (a prefix of the content), exactly one terminal call,
//! nothing after; complete only with exactly the announced content; every opened writer is
//! terminal once the receiver is dropped.

use super::common::*;
use super::session::*;
use crate::channel::*;
use crate::ctx::{violate, Ctx};
use crate::engine::*;
use crate::monitor::*;
use crate::rng::Rng;
use crate::sdrv::*;
use crate::rdrv::Delivery;
use crate::spec::*;
use crate::wire;
use serde::{Deserialize, Serialize};
use serde_json::Value;
use std::collections::BTreeSet;
use std::path::Path;

#[derive(Clone, Debug, PartialEq, Serialize, Deserialize)]
pub struct Scn {
    pub sender: SenderScn,
    pub recv: RecvSpec,
    pub chan: ChanSpec,
    pub wfaults: WriterFaults,
    /// drop the receiver after this many deliveries (crash point)
    pub crash_after: Option<u32>,
    pub cleanup_every: u32,
    /// every FDT instance of the session is replaced by a rewritten one (an announcement that lies)
    #[serde(default)]
    pub fdt_rewrite: Option<FdtRewrite>,
}

/// Textual rewrite of `File` attributes of the sender's FDT instances, re-packetised by the harness.
#[derive(Clone, Debug, PartialEq, Serialize, Deserialize)]
pub enum FdtRewrite {
    /// Content-Length := max(0, value + delta)
    ContentLength(i64),
    TransferLength(i64),
    /// both lengths
    BothLengths(i64),
    /// the announced Content-MD5 is the one of other bytes
    Md5,
    /// the announced Content-MD5 is not the digest of the content AND not canonical base64 either:
    /// 0 padding stripped, 1 URL-safe alphabet, 2 folded with white space, 3 one character replaced,
    /// 4 plain garbage, 5 empty, 6 hex of other bytes, 7 a longer base64 string
    Md5Form(u8),
    /// Content-Length and Transfer-Length attributes removed
    DropLengths,
}

fn rewrite_attr_num(xml: &str, attr: &str, delta: i64) -> String {
    let pat = format!("{}=\"", attr);
    let mut out = String::new();
    let mut rest = xml;
    while let Some(i) = rest.find(&pat) {
        // attribute names like Transfer-Length inside "X-Transfer-Length" do not occur in flute's FDT
        let (head, tail) = rest.split_at(i + pat.len());
        out.push_str(head);
        let end = tail.find('"').unwrap_or(0);
        let v: i64 = tail[..end].parse().unwrap_or(0);
        out.push_str(&(v + delta).max(0).to_string());
        rest = &tail[end..];
    }
    out.push_str(rest);
    out
}

fn drop_attr(xml: &str, attr: &str) -> String {
    let pat = format!(" {}=\"", attr);
    let mut out = String::new();
    let mut rest = xml;
    while let Some(i) = rest.find(&pat) {
        out.push_str(&rest[..i]);
        let tail = &rest[i + pat.len()..];
        let end = tail.find('"').map(|e| e + 1).unwrap_or(0);
        rest = &tail[end..];
    }
    out.push_str(rest);
    out
}

fn rewrite_md5_form(xml: &str, form: u8) -> String {
    let pat = "Content-MD5=\"";
    let mut out = String::new();
    let mut rest = xml;
    while let Some(i) = rest.find(pat) {
        let (head, tail) = rest.split_at(i + pat.len());
        out.push_str(head);
        let end = tail.find('"').unwrap_or(0);
        let v = &tail[..end];
        // a digest of OTHER bytes first (the first character rotated inside the alphabet) ...
        let mut w: Vec<char> = v.chars().collect();
        if let Some(c) = w.first_mut() {
            *c = if *c == 'A' { 'B' } else { 'A' };
        }
        let wrong: String = w.into_iter().collect();
        // ... then written in a form a lenient decoder may or may not accept
        let t = match form {
            0 => wrong.trim_end_matches('=').to_string(),
            1 => format!("-_{}", &wrong[2.min(wrong.len())..]),
            2 => {
                let h = wrong.len() / 2;
                format!("{} {}", &wrong[..h], &wrong[h..])
            }
            3 => format!("{}*{}", &wrong[..1.min(wrong.len())], &wrong[2.min(wrong.len())..]),
            4 => "not a digest at all!".to_string(),
            5 => String::new(),
            6 => "00112233445566778899aabbccddeeff".to_string(),
            _ => format!("{}AAAA", wrong.trim_end_matches('=')),
        };
        out.push_str(&t);
        rest = &tail[end..];
    }
    out.push_str(rest);
    out
}

pub fn rewrite_fdt(xml: &[u8], rw: &FdtRewrite) -> Vec<u8> {
    let s = String::from_utf8_lossy(xml).to_string();
    let r = match rw {
        FdtRewrite::ContentLength(d) => rewrite_attr_num(&s, "Content-Length", *d),
        FdtRewrite::TransferLength(d) => rewrite_attr_num(&s, "Transfer-Length", *d),
        FdtRewrite::BothLengths(d) => rewrite_attr_num(&rewrite_attr_num(&s, "Content-Length", *d), "Transfer-Length", *d),
        FdtRewrite::Md5 => s.replace("Content-MD5=\"", "Content-MD5=\"AAAA"),
        FdtRewrite::Md5Form(f) => rewrite_md5_form(&s, *f),
        FdtRewrite::DropLengths => drop_attr(&drop_attr(&s, "Content-Length"), "Transfer-Length"),
    };
    r.into_bytes()
}

pub struct C09;

fn tiny(idx: u64) -> SenderScn {
    let scheme = Scheme::ALL[(idx % 5) as usize];
    let cenc = [CencSpec::Null, CencSpec::Gzip][((idx / 5) % 2) as usize];
    let inband = (idx / 10) % 2 == 0;
    let (b, e): (u32, u16) = if scheme == Scheme::Raptor { (4, 8) } else { (2, 8) };
    let mut spec = SenderSpec::basic(OtiSpec::new(Scheme::NoCode, 1400, 64, 0, true));
    spec.interleave = 2;
    spec.queues = vec![(0, 2)];
    let mut objects = Vec::new();
    let mut ops = Vec::new();
    for i in 0..2usize {
        let len = if i == 0 { 3 * b as usize * e as usize - 3 } else { 0 };
        let mut o = ObjectSpec::basic(len, 0xC09 + idx + i as u64, i);
        o.kind = ContentKind::Text;
        o.oti = Some(OtiSpec::new(scheme, e, b, if scheme == Scheme::NoCode { 0 } else { 1 }, inband));
        o.cenc = if i == 0 { cenc } else { CencSpec::Null };
        objects.push(o);
        ops.push(TimedOp { when: When::AtUs(0), op: Op::Add(i) });
    }
    ops.push(TimedOp { when: When::AtUs(0), op: Op::Publish });
    let mut poll = PollSpec::simple(1000);
    poll.idle_polls_after_done = 0;
    SenderScn { spec, objects, ops, poll, snapshots: false }
}

const N_TINY: u64 = 20;
const ENUM_PER_TINY: u64 = 40 + 24 + 4; // crash points, write-fail calls, open-fail calls
const N_ENUM: u64 = N_TINY * ENUM_PER_TINY;

pub fn gen(idx: u64, rng: &mut Rng, _tier: Tier) -> Scn {
    let mut recv = RecvSpec::basic();
    recv.object_timeout_ms = Some(3_600_000);
    if idx < N_ENUM {
        let s = idx / ENUM_PER_TINY;
        let k = idx % ENUM_PER_TINY;
        let mut wf = WriterFaults::default();
        let mut crash = None;
        if k < 40 {
            crash = Some(k as u32);
        } else if k < 64 {
            wf.fail_write_at = Some(k - 40);
        } else {
            wf.fail_open_at = Some(k - 64);
        }
        return Scn { sender: tiny(s), recv, chan: ChanSpec::clean(), wfaults: wf, crash_after: crash, cleanup_every: 0, fdt_rewrite: None };
    }
    // sampled: histories of the C01-C04/C16 kinds
    let soti = gen_sender_oti(rng, None);
    let mut spec = gen_sender_spec(rng, soti);
    spec.fdt_carousel = CarouselSpec::DelayMs(*rng.pick(&[20u64, 100, 1000]));
    let n = rng.range(1, 4) as usize;
    let mut objects = Vec::new();
    let mut ops = Vec::new();
    for i in 0..n {
        let mut o = gen_object(rng, i, &spec, 60);
        if rng.chance(0.3) {
            o.cenc = *rng.pick(&[CencSpec::Zlib, CencSpec::Deflate, CencSpec::Gzip]);
            o.source = SourceSpec::Buffer;
        }
        if rng.chance(0.25) {
            o.carousel = Some(CarouselSpec::DelayMs(rng.range(0, 30)));
        }
        objects.push(o);
        ops.push(TimedOp { when: When::AtUs(0), op: Op::Add(i) });
    }
    ops.push(TimedOp { when: When::AtUs(0), op: Op::Publish });
    for (i, o) in objects.iter().enumerate() {
        if o.carousel.is_some() {
            ops.push(TimedOp { when: When::AfterPkt(rng.range(20, 250)), op: Op::Remove(i) });
            ops.push(TimedOp { when: When::AtUs(2_000_000), op: Op::Remove(i) });
        } else if rng.chance(0.15) {
            ops.push(TimedOp { when: When::AfterPkt(rng.range(1, 60)), op: Op::Remove(i) });
        }
    }
    let poll = PollSpec {
        start_us: 0,
        gap: GapSpec::RandomUs { seed: rng.next_u64(), min: 100, max: *rng.pick(&[1_000u64, 20_000, 200_000]) },
        burst: if rng.chance(0.5) { None } else { Some(rng.range(1, 8) as u32) },
        max_polls: 5_000,
        max_pkts: 2_500,
        idle_polls_after_done: 1,
    };
    recv.receive_once = rng.chance(0.6);
    recv.md5_check = rng.chance(0.8);
    recv.max_objects_error = *rng.pick(&[0usize, 0, 1, 5]);
    recv.object_timeout_ms = Some(*rng.pick(&[50u64, 1_000, 3_600_000]));
    recv.session_timeout_ms = if rng.chance(0.2) { Some(rng.range(10, 3000)) } else { None };
    recv.cache_size = if rng.chance(0.2) { Some(rng.range(100, 5000) as usize) } else { None };
    let mut chan = ChanSpec::clean();
    match rng.below(5) {
        0 => {} // clean
        1 => {
            chan.p_drop = rng.log_uniform(0.01, 0.4);
            chan.p_dup = rng.log_uniform(0.01, 0.2);
        }
        2 => {
            chan.reorder = match rng.below(3) {
                0 => Reorder::Swap(rng.log_uniform(0.02, 0.5)),
                1 => Reorder::Jitter { p: rng.log_uniform(0.02, 0.5), max: rng.range(1, 40) as u32 },
                _ => Reorder::Shuffle,
            };
            chan.p_drop = if rng.chance(0.5) { rng.log_uniform(0.01, 0.3) } else { 0.0 };
            chan.p_dup_late = if rng.chance(0.5) { rng.log_uniform(0.01, 0.3) } else { 0.0 };
        }
        3 => {
            // malformed
            if rng.chance(0.6) {
                chan.p_mutate_header = rng.log_uniform(0.005, 0.3);
            }
            if chan.p_mutate_header == 0.0 || rng.chance(0.4) {
                chan.p_field_edit = rng.log_uniform(0.01, 0.3);
            }
            chan.p_corrupt = if rng.chance(0.5) { rng.log_uniform(0.005, 0.2) } else { 0.0 };
            chan.p_truncate = if rng.chance(0.5) { rng.log_uniform(0.005, 0.2) } else { 0.0 };
            chan.p_extend = if rng.chance(0.3) { rng.log_uniform(0.005, 0.1) } else { 0.0 };
        }
        _ => {
            // late join
            chan.skip_first = rng.range(1, 120) as u32;
        }
    }
    let mut wf = WriterFaults::default();
    if rng.chance(0.5) {
        match rng.below(4) {
            0 => wf.p_open_fail = rng.log_uniform(0.05, 0.6),
            1 => wf.p_write_fail = rng.log_uniform(0.01, 0.3),
            2 => wf.p_abort = rng.log_uniform(0.05, 0.5),
            _ => wf.p_already = rng.log_uniform(0.05, 0.5),
        }
        if rng.chance(0.3) {
            wf.p_write_fail = rng.log_uniform(0.01, 0.2);
        }
    }
    Scn {
        sender: SenderScn { spec, objects, ops, poll, snapshots: false },
        recv,
        chan,
        wfaults: wf,
        crash_after: if rng.chance(0.4) { Some(rng.range(0, 400) as u32) } else { None },
        cleanup_every: *rng.pick(&[0u32, 1, 5, 40]),
        fdt_rewrite: if rng.chance(0.14) {
            Some(match rng.below(8) {
                6 | 7 => FdtRewrite::Md5Form(rng.below(8) as u8),
                0 => FdtRewrite::ContentLength(-(rng.range(1, 40) as i64)),
                1 => FdtRewrite::ContentLength(rng.range(1, 40) as i64),
                2 => FdtRewrite::TransferLength(*rng.pick(&[-17i64, -1, 1, 16])),
                3 => FdtRewrite::BothLengths(*rng.pick(&[-9i64, -1, 1, 5])),
                4 => FdtRewrite::Md5,
                _ => FdtRewrite::DropLengths,
            })
        } else {
            None
        },
    }
}

pub fn check_protocol(ctx: &Ctx, sess: Option<&Session>, monitor: &Monitor, content_trusted: bool, dropped: bool) {
    let st = monitor.state.borrow();
    for w in st.writers.iter() {
        for e in &w.protocol_errors {
            let class = if e.contains("after terminal") {
                "call-after-terminal"
            } else if e.contains("before open") {
                "call-before-open"
            } else if e.contains("open called after") {
                "open-twice"
            } else if e.contains("although open failed") {
                "used-after-failed-open"
            } else {
                "used-after-failed-write"
            };
            violate(
                ctx,
                &format!("C09/{}", class),
                "-",
                format!("writer {} toi={}: {}; calls: {:?}", w.id, w.toi, e, w.events.iter().map(|x| x.kind).collect::<Vec<_>>()),
            );
        }
        if w.events.is_empty() {
            violate(ctx, "C09/never-opened", "-", format!("writer {} toi={} was obtained from the builder but open was never called", w.id, w.toi));
        }
        if w.terminal == Some(Terminal::Complete) {
            if let Some(cl) = w.meta.content_length {
                if w.data.len() != cl {
                    violate(
                        ctx,
                        "C09/complete-wrong-length",
                        "-",
                        format!("writer {} toi={}: complete after {} bytes, announced Content-Length {}", w.id, w.toi, w.data.len(), cl),
                    );
                }
            }
            if let (Some(m), true) = (&w.meta.md5, w.md5_check) {
                if md5_b64(&w.data) != *m {
                    violate(
                        ctx,
                        "C09/complete-md5-mismatch",
                        "-",
                        format!("writer {} toi={}: complete although the MD5 of the written bytes differs from the announced one", w.id, w.toi),
                    );
                }
            }
        }
        if content_trusted {
            if let Some(o) = sess.and_then(|s| s.objs.iter().find(|o| o.toi == w.toi)) {
                if !o.content.starts_with(&w.data) {
                    let first = w.data.iter().zip(o.content.iter()).position(|(a, b)| a != b);
                    violate(
                        ctx,
                        "C09/writes-not-a-prefix",
                        "-",
                        format!(
                            "writer {} toi={}: the {} bytes written are not a prefix of the object ({} bytes), first difference at {:?}",
                            w.id, w.toi, w.data.len(), o.content.len(), first
                        ),
                    );
                }
            }
        }
        if dropped && w.opened && w.terminal.is_none() {
            violate(
                ctx,
                "C09/no-terminal-after-drop",
                "-",
                format!("writer {} toi={} was opened but got no terminal call although the receiver has been dropped", w.id, w.toi),
            );
        }
    }
}

pub fn run(scn: &Scn, ctx: &Ctx, scratch: &Path) {
    let sess = match run_sender(&scn.sender, ctx, scratch) {
        Some(s) => s,
        None => return,
    };
    if sess.trace.pkts.is_empty() {
        return;
    }
    let ep = [scn.sender.spec.endpoint.build()];
    let (mut dl, st) = apply(&scn.chan, ctx, &sess.trace, "r0");
    let mut lied = false;
    if let (Some(rw), true) = (&scn.fdt_rewrite, scn.sender.spec.fdt_cenc == CencSpec::Null) {
        // replace every (complete, readable) FDT transmission by the rewritten instance
        let mut new_dl: Vec<Delivery> = Vec::new();
        let mut done: BTreeSet<usize> = BTreeSet::new();
        for d in dl.into_iter() {
            let tx = d.src.and_then(|i| sess.txs.iter().enumerate().find(|(_, t)| t.pkts.contains(&i) && t.xml.is_some() && t.complete_at.is_some()));
            match tx {
                Some((ti, t)) => {
                    if done.insert(ti) {
                        let xml = rewrite_fdt(t.xml.as_ref().unwrap(), rw);
                        let sct = sess.trace.pkts[t.first].dec.sct;
                        for b in wire::packetise_fdt(&xml, scn.sender.spec.tsi, t.instance_id, t.e as usize, sct, None) {
                            new_dl.push(Delivery { t_us: d.t_us, bytes: b, src: None, ep: d.ep });
                        }
                        lied = true;
                    }
                }
                None => new_dl.push(d),
            }
        }
        dl = new_dl;
        if lied {
            ctx.borrow_mut().count_fault("fdt-attribute-rewrite");
        }
    }
    if let Some(c) = scn.crash_after {
        if (c as usize) < dl.len() {
            dl.truncate(c as usize);
            ctx.borrow_mut().count_fault("crash");
        }
    }
    let mut r = receive(&scn.recv, ctx, &ep, &dl, scn.wfaults.clone(), "r0", scn.cleanup_every, 0);
    // timeouts: a late cleanup well after the last delivery
    if scn.cleanup_every > 0 {
        let t = dl.last().map(|d| d.t_us).unwrap_or(t0_us()) + 20_000_000;
        r.run.cleanup(t);
    }
    let trusted = st.corrupted == 0 && !lied;
    check_protocol(ctx, Some(&sess), &r.monitor, trusted, false);
    r.run.drop_receiver();
    check_protocol(ctx, Some(&sess), &r.monitor, trusted, true);
    let nw = r.monitor.state.borrow().writers.len();
    if nw > 0 {
        ctx.borrow_mut().nontrivial = true;
        ctx.borrow_mut().note_n("writers-checked", nw as u64);
    }
}

impl Prop for C09 {
    fn id(&self) -> &'static str {
        "C09"
    }
    fn info(&self) -> PropInfo {
        PropInfo {
            level: "exploration",
            rule: "part 1 (enumerated): 20 tiny two-object sessions (5 FEC schemes x cenc null/gzip x in-band/FDT-only OTI, one empty object) x {receiver dropped after every delivery index 0..39, the n-th write call failing for n = 0..23, the n-th open call failing for n = 0..3}; part 2: seeded histories of the kinds used for C01-C04 and C16 (clean, lossy+duplicated, reordered, header-mutated/payload-corrupted/truncated, late join; carousel and removed objects; small caches and timeouts) x writer faults (open fails, write fails, builder answers Abort / ObjectAlreadyReceived) x receiver drop at a seeded point x cleanup cadence. Oracle: per-writer typestate automaton run online by the monitoring writer + complete => announced length / MD5 + writes are a prefix of the sender's object (uncorrupted histories) + every opened writer terminal after drop. Non-trivial: at least one writer was created.",
            assumptions: vec!["on histories with corrupted/mutated packets only the length/MD5 announced in the metadata handed to the builder are used (the sender's bytes are not trusted there)"],
            real: vec!["Sender", "MultiReceiver/Receiver/ObjectReceiver incl. Drop paths"],
            stub: vec!["channel", "clocks", "monitoring writer with injected failures", "receiver lifetime (drop = crash)"],
        }
    }
    fn runs(&self, tier: Tier) -> u64 {
        N_ENUM
            + match tier {
                Tier::Quick => 24_000,
                Tier::Thorough => 250_000,
            }
    }
    fn generate(&self, idx: u64, tier: Tier, rng: &mut Rng) -> Value {
        serde_json::to_value(gen(idx, rng, tier)).unwrap()
    }
    fn run(&self, scn: &Value, ctx: &Ctx, scratch: &Path) {
        match serde_json::from_value::<Scn>(scn.clone()) {
            Ok(s) => run(&s, ctx, scratch),
            Err(e) => ctx.borrow_mut().note(&format!("bad-scenario:{}", e)),
        }
    }
    fn exhaustive(&self, _tier: Tier) -> Option<String> {
        Some("20 tiny sessions x (receiver drop after each of the first 40 deliveries, each of the first 24 write calls failing, each of the first 4 open calls failing)".into())
    }
    fn shrink(&self, scn: &Value) -> Vec<Value> {
        let s: Scn = match serde_json::from_value(scn.clone()) {
            Ok(s) => s,
            Err(_) => return vec![],
        };
        let mut out = Vec::new();
        for c in shrink_sender_scn(&s.sender) {
            let mut n = s.clone();
            n.sender = c;
            out.push(n);
        }
        if s.cleanup_every != 0 {
            let mut n = s.clone();
            n.cleanup_every = 0;
            out.push(n);
        }
        if let Some(c) = s.crash_after {
            let mut n = s.clone();
            n.crash_after = None;
            out.push(n);
            if c > 0 {
                let mut n = s.clone();
                n.crash_after = Some(c / 2);
                out.push(n);
                let mut n = s.clone();
                n.crash_after = Some(c - 1);
                out.push(n);
            }
        }
        let mut n = s.clone();
        n.recv = RecvSpec::basic();
        out.push(n);
        out.into_iter().map(|s| serde_json::to_value(s).unwrap()).collect()
    }
}
