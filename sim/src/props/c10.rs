//! C10 — FDT instances list exactly the announced objects, survive XML, fresh id / expiry.

use super::common::*;
use super::sendview::*;
use crate::ctx::{violate, Ctx};
use crate::engine::*;
use crate::fdtview::{self, FdtFile, FdtTx};
use crate::monitor::*;
use crate::rdrv::*;
use crate::rng::Rng;
use crate::sdrv::*;
use crate::spec::*;
use serde::{Deserialize, Serialize};
use serde_json::Value;
use std::collections::{BTreeMap, BTreeSet};
use std::path::Path;

#[derive(Clone, Debug, PartialEq, Serialize, Deserialize)]
pub struct Scn {
    pub sender: SenderScn,
    /// also feed the stream to a flute receiver and compare what it reads
    pub with_receiver: bool,
}

pub struct C10;

const NTP_OFFSET: u64 = 2_208_988_800;

/// A publication that FAILS in the middle of the life of an instance (full-FDT mode, Raptor FDT of 1400-byte
/// symbols: listing one object it fits one symbol, listing two it needs two, which Raptor cannot encode): the
/// offending object is removed at once; the instance in force must still be renewed on time.
fn gen_failed_publication(rng: &mut Rng) -> Scn {
    let mut spec = SenderSpec::basic(OtiSpec::new(Scheme::Raptor, 1400, 64, 1, true));
    spec.full_fdt = true;
    spec.queues = vec![(0, 2)];
    let d = *rng.pick(&[40u64, 60, 90]);
    spec.fdt_duration_ms = d * 1000;
    spec.fdt_carousel = CarouselSpec::DelayMs(5000);
    spec.fdt_start_id = rng.range(1, 1000) as u32;
    let mut a = ObjectSpec::basic(rng.range(10, 100) as usize, rng.next_u64(), 0);
    a.oti = Some(OtiSpec::new(Scheme::NoCode, 16, 4, 0, true));
    a.carousel = Some(CarouselSpec::DelayMs(3000));
    let mut x = ObjectSpec::basic(rng.range(10, 100) as usize, rng.next_u64(), 1);
    x.oti = Some(OtiSpec::new(Scheme::NoCode, 16, 4, 0, true));
    let t1 = rng.range(6, d - 10) * 1_000_000 + rng.range(0, 999_999);
    let horizon = (2 * d + d / 2) * 1_000_000;
    let ops = vec![
        TimedOp { when: When::AtUs(0), op: Op::Add(0) },
        TimedOp { when: When::AtUs(0), op: Op::Publish },
        TimedOp { when: When::AtUs(t1), op: Op::Add(1) },
        TimedOp { when: When::AtUs(t1), op: Op::Publish },
        TimedOp { when: When::AtUs(t1), op: Op::Remove(1) },
        TimedOp { when: When::AtUs(horizon), op: Op::Remove(0) },
        TimedOp { when: When::AtUs(horizon), op: Op::Publish },
    ];
    let poll = PollSpec {
        start_us: rng.range(0, 999_999),
        gap: GapSpec::FixedUs(*rng.pick(&[250_000u64, 1_000_000])),
        burst: None,
        max_polls: 60_000,
        max_pkts: 20_000,
        idle_polls_after_done: 0,
    };
    Scn { sender: SenderScn { spec, objects: vec![a, x], ops, poll, snapshots: false }, with_receiver: false }
}

pub fn gen(rng: &mut Rng, _tier: Tier) -> Scn {
    if rng.chance(0.05) {
        return gen_failed_publication(rng);
    }
    let soti = gen_sender_oti(rng, None);
    let mut spec = gen_sender_spec(rng, soti);
    // FDT duration from seconds to days; the liveness rule needs the run to outlast it
    let long = rng.chance(0.25);
    spec.fdt_duration_ms = 1000
        * if long {
            *rng.pick(&[1u64, 5, 10, 11, 20, 30, 31, 45, 60, 120, 3600, 86400, 3 * 86400])
        } else {
            *rng.pick(&[3600u64, 86400])
        };
    spec.fdt_start_id = match rng.below(4) {
        0 => 0xFFFFF - rng.range(0, 3) as u32,
        1 => rng.range(0, 0xFFFFF) as u32,
        _ => 1,
    };
    spec.fdt_carousel = CarouselSpec::DelayMs(if long { spec.fdt_duration_ms / 7 + 500 } else { *rng.pick(&[200u64, 1000]) });
    // TOIs beyond 64 bits (the documented random start, a large configured start): listed and found like any other
    if rng.chance(0.2) {
        spec.toi_initial = Some(
            match rng.below(4) {
                0 => (1u128 << 64) - 2,
                1 => (1u128 << 64) + rng.range(0, 1000) as u128,
                2 => (1u128 << 100) + 7,
                _ => (rng.next_u64() as u128) << 40,
            }
            .to_string(),
        );
    }
    let n = rng.range(1, 5) as usize;
    let mut objects = Vec::new();
    let mut ops = Vec::new();
    let mut t = 0u64;
    for i in 0..n {
        let mut o = gen_object(rng, i, &spec, 30);
        // the publish-time set must be exact: keep objects short but let some of them last
        o.max_transfer_count = *rng.pick(&[1u32, 1, 2]);
        if rng.chance(0.3) {
            o.carousel = Some(CarouselSpec::DelayMs(*rng.pick(&[50u64, 400, 5000])));
        }
        if rng.chance(0.2) {
            o.cenc = *rng.pick(&[CencSpec::Zlib, CencSpec::Deflate, CencSpec::Gzip]);
            o.source = SourceSpec::Buffer;
        }
        if rng.chance(0.3) {
            o.groups = Some((0..rng.range(1, 3)).map(|k| format!("g{}-{}", k, rng.pick(&HOSTILE_STRINGS))).collect());
        }
        // an absolute cache expiry that is already past when the object is announced, or that passes during the run:
        // the directive is the application's, it is announced unaltered by every instance
        if rng.chance(0.12) {
            o.cache = Some(CacheSpec::ExpiresAtMs(if rng.chance(0.5) { T0_MS - rng.range(1_000, 100_000_000) } else { T0_MS + rng.range(0, 20_000) }));
        }
        if rng.chance(0.5) {
            o.etag = Some(format!("{}{}", rng.pick(&HOSTILE_STRINGS), i));
        }
        if rng.chance(0.15) {
            o.optel = Some(("traceparent".to_string(), format!("00-{:032x}-{:016x}-01 {}", rng.next_u64() as u128 * 7919, rng.next_u64(), rng.pick(&HOSTILE_STRINGS))));
        }
        if rng.chance(0.1) {
            o.ctype = "long/".to_string() + &"x&<>\"'".repeat(170);
        }
        objects.push(o);
        let when = if i == 0 || rng.chance(0.5) {
            When::AtUs(t)
        } else if rng.chance(0.5) {
            When::AfterPkt(rng.range(1, 60))
        } else {
            t += rng.range(1, 3_000_000);
            When::AtUs(t)
        };
        ops.push(TimedOp { when: when.clone(), op: Op::Add(i) });
        if rng.chance(0.8) {
            ops.push(TimedOp { when, op: Op::Publish });
        }
    }
    for i in 0..n {
        if objects[i].carousel.is_some() || rng.chance(0.3) {
            let when = if rng.chance(0.5) { When::AfterPkt(rng.range(2, 150)) } else { When::AtUs(rng.range(0, 6_000_000)) };
            ops.push(TimedOp { when: when.clone(), op: Op::Remove(i) });
            if rng.chance(0.7) {
                ops.push(TimedOp { when, op: Op::Publish });
            }
        }
        if objects[i].carousel.is_some() {
            ops.push(TimedOp { when: When::AtUs(8_000_000), op: Op::Remove(i) });
            ops.push(TimedOp { when: When::AtUs(8_000_000), op: Op::Publish });
        }
    }
    for _ in 0..rng.range(0, 3) {
        ops.push(TimedOp { when: When::AtUs(rng.range(0, 9_000_000)), op: Op::Publish });
    }
    if rng.chance(0.15) {
        ops.push(TimedOp { when: When::AtUs(rng.range(1_000_000, 9_000_000)), op: Op::SetComplete });
        ops.push(TimedOp { when: When::AtUs(9_500_000), op: Op::Publish });
    }
    // keep the run alive beyond the FDT duration (for the supersede rule) when it is short enough
    let horizon_s = if long && spec.fdt_duration_ms <= 130_000 { 3 * spec.fdt_duration_ms / 1000 + 5 } else { 12 };
    ops.push(TimedOp { when: When::AtUs(horizon_s * 1_000_000), op: Op::Publish });
    let gap = match rng.below(3) {
        0 => GapSpec::FixedUs(*rng.pick(&[10_000u64, 250_000, 1_000_000])),
        1 => GapSpec::RandomUs { seed: rng.next_u64(), min: 1_000, max: 1_000_000 },
        _ => GapSpec::ListUs(vec![1_000_000, 700_000, 10_000, 999_999]),
    };
    let poll = PollSpec {
        start_us: rng.range(0, 999_999),
        gap,
        burst: if rng.chance(0.6) { None } else { Some(rng.range(1, 10) as u32) },
        max_polls: 60_000,
        max_pkts: 20_000,
        idle_polls_after_done: 0,
    };
    Scn { sender: SenderScn { spec, objects, ops, poll, snapshots: false }, with_receiver: rng.chance(0.4) }
}

fn expect_file(o: &ObjectSpec, toi: u128, sender: &SenderSpec, publish_us: u64) -> FdtFile {
    let oti = o.eff_oti(&sender.oti);
    // OTI attributes appear on the File only for a per-object override or RaptorQ
    let with_oti = o.oti.is_some() || oti.scheme == Scheme::RaptorQ;
    FdtFile {
        toi,
        toi_raw: toi.to_string(),
        location: url::Url::parse(&o.location).map(|u| u.to_string()).unwrap_or_default(),
        content_length: Some(o.len as u64),
        transfer_length: if o.cenc == CencSpec::Null { Some(o.len as u64) } else { None },
        ctype: Some(o.ctype.clone()),
        encoding: if o.cenc == CencSpec::Null { None } else { Some(o.cenc.name().to_string()) },
        md5: if o.md5 { Some(md5_b64(&o.content())) } else { None },
        fec_id: if with_oti { Some(oti.scheme.fec_id() as u64) } else { None },
        fec_instance: if with_oti { Some(0) } else { None },
        max_sbl: if with_oti { Some(oti.b as u64) } else { None },
        esl: if with_oti { Some(oti.e as u64) } else { None },
        max_n: if with_oti { Some(oti.b as u64 + oti.parity as u64) } else { None },
        scheme_info: if with_oti && matches!(oti.scheme, Scheme::RaptorQ | Scheme::Raptor) {
            // Z is filled in when compared (it depends on the announced transfer length)
            Some(format!("{}/{}/{}", if oti.scheme == Scheme::RaptorQ { "Q" } else { "R" }, oti.sub_blocks, oti.al))
        } else {
            None
        },
        etag: o.etag.clone(),
        optel: o.optel.as_ref().map(|(k, v)| {
            use base64::Engine;
            base64::engine::general_purpose::STANDARD.encode(serde_json::to_string(&std::collections::BTreeMap::from([(k.clone(), v.clone())])).unwrap_or_default())
        }),
        groups: o.groups.clone().unwrap_or_default(),
        cache: o.cache.as_ref().map(|c| match c {
            CacheSpec::NoCache => "no-cache".to_string(),
            CacheSpec::MaxStale => "max-stale".to_string(),
            CacheSpec::ExpiresMs(d) => format!("Expires:{}", ((publish_us + d * 1000) / 1_000_000 + NTP_OFFSET) as u32),
            CacheSpec::ExpiresAtMs(ms) => format!("Expires:{}", (ms / 1000 + NTP_OFFSET) as u32),
        }),
    }
}

fn compare_file(ctx: &Ctx, inst: u32, got: &FdtFile, want: &FdtFile) {
    let mut bad = |field: &str, g: String, w: String| {
        violate(
            ctx,
            &format!("C10/attribute-{}", field),
            "-",
            format!("FDT instance {} File TOI={}: {} is {} but the sender was given {}", inst, got.toi_raw, field, g, w),
        );
    };
    if got.location != want.location {
        bad("location", format!("{:?}", got.location), format!("{:?}", want.location));
    }
    if got.content_length != want.content_length {
        bad("content-length", format!("{:?}", got.content_length), format!("{:?}", want.content_length));
    }
    if want.transfer_length.is_some() && got.transfer_length != want.transfer_length {
        bad("transfer-length", format!("{:?}", got.transfer_length), format!("{:?}", want.transfer_length));
    }
    if got.transfer_length.is_none() {
        bad("transfer-length", "absent".into(), "present".into());
    }
    if got.ctype != want.ctype {
        let ws = want.ctype.as_ref().map(|s| s.contains(['\t', '\n', '\r'])).unwrap_or(false);
        bad(if ws { "type-literal-whitespace" } else { "type" }, format!("{:?}", got.ctype), format!("{:?}", want.ctype));
    }
    if got.encoding != want.encoding {
        bad("encoding", format!("{:?}", got.encoding), format!("{:?}", want.encoding));
    }
    if got.md5 != want.md5 {
        bad("md5", format!("{:?}", got.md5), format!("{:?}", want.md5));
    }
    if got.etag != want.etag {
        let ws = want.etag.as_ref().map(|s| s.contains(['\t', '\n', '\r'])).unwrap_or(false);
        bad(if ws { "etag-literal-whitespace" } else { "etag" }, format!("{:?}", got.etag), format!("{:?}", want.etag));
    }
    if got.optel != want.optel {
        bad("optel-propagator", format!("{:?}", got.optel), format!("{:?}", want.optel));
    }
    if got.groups != want.groups {
        bad("groups", format!("{:?}", got.groups), format!("{:?}", want.groups));
    }
    if got.cache != want.cache {
        bad("cache", format!("{:?}", got.cache), format!("{:?}", want.cache));
    }
    if let Some(ws) = &want.scheme_info {
        // Scheme-Specific-Info (base64): RaptorQ = Z(8) N(16) Al(8), Raptor = Z(16) N(8) Al(8); Z = number of source blocks
        use base64::Engine;
        let parts: Vec<&str> = ws.split('/').collect();
        let (n_want, al_want): (u64, u64) = (parts[1].parse().unwrap_or(0), parts[2].parse().unwrap_or(0));
        let tl = got.transfer_length.unwrap_or(0);
        let p = crate::wire::partition(want.max_sbl.unwrap_or(0), tl, want.esl.unwrap_or(0));
        let z_want = p.3.max(1);
        let dec = got.scheme_info.as_ref().and_then(|s| base64::engine::general_purpose::STANDARD.decode(s).ok());
        let got_t = match (&dec, parts[0]) {
            (Some(b), "Q") if b.len() == 4 => Some((b[0] as u64, ((b[1] as u64) << 8) | b[2] as u64, b[3] as u64)),
            (Some(b), "R") if b.len() == 4 => Some((((b[0] as u64) << 8) | b[1] as u64, b[2] as u64, b[3] as u64)),
            _ => None,
        };
        if got_t != Some((z_want, n_want, al_want)) {
            bad(
                "fec-scheme-specific-info",
                format!("{:?} = (Z, N, Al) {:?}", got.scheme_info, got_t),
                format!("(Z, N, Al) = {:?} ({} source blocks for the announced transfer length {})", (z_want, n_want, al_want), z_want, tl),
            );
        }
    }
    if want.fec_id.is_some() {
        if (got.fec_id, got.max_sbl, got.esl, got.max_n) != (want.fec_id, want.max_sbl, want.esl, want.max_n) {
            bad(
                "fec-oti",
                format!("{:?}", (got.fec_id, got.max_sbl, got.esl, got.max_n)),
                format!("{:?}", (want.fec_id, want.max_sbl, want.esl, want.max_n)),
            );
        }
    }
}

pub fn oracle(scn: &SenderScn, ctx: &Ctx, trace: &SenderTrace) -> Vec<FdtTx> {
    let txs = fdtview::fdt_transmissions(&trace.pkts);
    let tr = transfers(scn, trace);
    // 1. well-formed XML, one id <-> one content
    let mut by_id: BTreeMap<u32, &FdtTx> = BTreeMap::new();
    let mut order: Vec<u32> = Vec::new();
    for t in &txs {
        if !trace.finished && t.last + 1 == trace.pkts.len() {
            continue;
        }
        if let Some(e) = &t.error {
            violate(ctx, "C10/not-well-formed", "-", format!("FDT instance {} (packets {}..{}): {}", t.instance_id, t.first, t.last, e));
            continue;
        }
        match by_id.get(&t.instance_id) {
            None => {
                by_id.insert(t.instance_id, t);
                order.push(t.instance_id);
            }
            Some(first) => {
                if first.xml != t.xml {
                    violate(
                        ctx,
                        "C10/instance-id-reused",
                        "-",
                        format!("FDT instance id {} denotes two different contents (packets {}.. and {}..)", t.instance_id, first.first, t.first),
                    );
                }
            }
        }
    }
    // 2. ids consecutive modulo 2^20 in order of first appearance, starting at fdt_start_id
    let mut expect_id = scn.spec.fdt_start_id & 0xFFFFF;
    for id in &order {
        if *id != expect_id {
            violate(
                ctx,
                "C10/instance-id-sequence",
                "-",
                format!("FDT instance ids appear as {:?}, expected consecutive values modulo 2^20 from {}", order.iter().take(12).collect::<Vec<_>>(), scn.spec.fdt_start_id),
            );
            break;
        }
        expect_id = (expect_id + 1) & 0xFFFFF;
    }
    // 3. content at publication time
    // explicit publication events: successful publish() calls and, in being-transferred mode, transfer starts
    let mut events: Vec<(u64, u64)> = Vec::new(); // (seq, t_us)
    for r in &trace.ops {
        if r.op == Op::Publish && r.result == OpResult::Published(true) {
            events.push((r.seq, r.t_us));
        }
    }
    if !scn.spec.full_fdt {
        for t in &tr.list {
            events.push((t.start_seq, t.start_us));
        }
    }
    events.sort();
    let mut ev_i = 0;
    let dur_s = scn.spec.fdt_duration_ms / 1000;
    let mut publications: Vec<(u32, u64)> = Vec::new(); // (id, publish time us)
    for id in &order {
        let tx = by_id[id];
        let first_seq = trace.pkts[tx.first].seq;
        let (pseq, pt_us, auto) = if ev_i < events.len() && events[ev_i].0 < first_seq {
            ev_i += 1;
            (events[ev_i - 1].0, events[ev_i - 1].1, false)
        } else {
            (first_seq, trace.pkts[tx.first].t_us, true)
        };
        publications.push((*id, pt_us));
        if auto {
            ctx.borrow_mut().note("automatic-publications");
        }
        let doc = match &tx.doc {
            Some(d) => d,
            None => continue,
        };
        // Expires
        let want_exp = pt_us / 1_000_000 + NTP_OFFSET + dur_s;
        if doc.expires != Some(want_exp) {
            violate(
                ctx,
                "C10/expires",
                if auto { "automatic" } else { "explicit" },
                format!("FDT instance {}: Expires={:?}, expected publish time + duration = {}", id, doc.expires, want_exp),
            );
        }
        // announced set
        let mut want: BTreeMap<u128, usize> = BTreeMap::new();
        for (i, _o) in scn.objects.iter().enumerate() {
            let toi = match trace.obj_toi[i] {
                Some(t) => t,
                None => continue,
            };
            let a = match add_seq(trace, i) {
                Some(a) => a,
                None => continue,
            };
            if a > pseq {
                continue;
            }
            if removal_seq(trace, i).map(|r| r < pseq).unwrap_or(false) {
                continue;
            }
            let mine: Vec<&Transfer> = tr.list.iter().filter(|t| t.obj == i).collect();
            if scn.spec.full_fdt {
                let o = &scn.objects[i];
                let finished = o.carousel.is_none()
                    && mine.iter().filter(|t| t.stop_seq.map(|s| s < pseq).unwrap_or(false)).count() as u32 >= o.max_transfer_count;
                if finished {
                    continue;
                }
            } else {
                let in_tx = mine.iter().any(|t| t.start_seq <= pseq && t.stop_seq.map(|s| s > pseq).unwrap_or(true));
                if !in_tx {
                    continue;
                }
            }
            want.insert(toi, i);
        }
        let got: BTreeSet<u128> = doc.files.iter().map(|f| f.toi).collect();
        let want_set: BTreeSet<u128> = want.keys().copied().collect();
        if got != want_set {
            violate(
                ctx,
                "C10/announced-set",
                if scn.spec.full_fdt { "full-fdt" } else { "being-transferred" },
                format!(
                    "FDT instance {} ({} publication at event {}) lists TOIs {:?}, the announced set at that time is {:?}",
                    id, if auto { "automatic" } else { "explicit" }, pseq, got, want_set
                ),
            );
        }
        if doc.files.len() != got.len() {
            violate(ctx, "C10/duplicate-file-entry", "-", format!("FDT instance {} lists a TOI twice", id));
        }
        for f in &doc.files {
            if let Some(i) = want.get(&f.toi) {
                compare_file(ctx, *id, f, &expect_file(&scn.objects[*i], f.toi, &scn.spec, pt_us));
            }
        }
        let want_groups = scn.spec.groups.clone().unwrap_or_default();
        if doc.groups != want_groups {
            violate(ctx, "C10/session-groups", "-", format!("FDT instance {}: groups {:?}, configured {:?}", id, doc.groups, want_groups));
        }
        if scn.spec.full_fdt != (doc.full_fdt.as_deref() == Some("true")) {
            violate(ctx, "C10/full-fdt-flag", "-", format!("FDT instance {}: FullFDT={:?} in {} mode", id, doc.full_fdt, if scn.spec.full_fdt { "full" } else { "being-transferred" }));
        }
    }
    // 4. superseded before expiry (sender polled at gaps <= 1 s, each poll draining the sender: with a
    //    read budget per poll the emission of the successor is limited by the caller, not by flute)
    for (k, (id, _)) in publications.iter().enumerate() {
        if scn.poll.burst.is_some() {
            break;
        }
        let tx = by_id[id];
        let exp_unix = match tx.doc.as_ref().and_then(|d| d.expires) {
            Some(e) => e.saturating_sub(NTP_OFFSET),
            None => continue,
        };
        if trace.end_us / 1_000_000 <= exp_unix + 1 {
            continue; // the run ends before this instance expires
        }
        let succ = publications.get(k + 1).map(|(nid, _)| by_id[nid]);
        let ok = succ
            .and_then(|s| s.complete_at)
            .map(|c| trace.pkts[c].t_us / 1_000_000 <= exp_unix)
            .unwrap_or(false);
        ctx.borrow_mut().note("supersede-checked");
        if !ok {
            let class = if scn.spec.fdt_duration_ms <= 30_000 { "short-duration" } else { "-" };
            violate(
                ctx,
                "C10/supersede-late",
                class,
                format!(
                    "FDT instance {} expires at unix second {} but its successor is completely emitted at {:?} (duration {} s, polls every <= 1 s)",
                    id,
                    exp_unix,
                    succ.and_then(|s| s.complete_at).map(|c| trace.pkts[c].t_us as f64 / 1e6),
                    dur_s
                ),
            );
        }
    }
    txs
}

pub fn run(scn: &Scn, ctx: &Ctx, scratch: &Path) {
    let drv = match Driver::new(&scn.sender, ctx, scratch) {
        Ok(d) => d,
        Err(e) => {
            ctx.borrow_mut().note(&format!("sender-build-failed:{}", truncate(&e, 40)));
            return;
        }
    };
    let trace = drv.run(&scn.sender);
    for e in &trace.wire_errors {
        violate(ctx, "C10/wire-discrepancy", "-", e.clone());
    }
    let txs = oracle(&scn.sender, ctx, &trace);
    if txs.len() > 1 {
        ctx.borrow_mut().nontrivial = true;
    }
    // fdt_xml_data() (the current FDT as XML) must be well-formed too
    if let Some(x) = &trace.fdt_xml_at_end {
        if let Err(e) = fdtview::read_doc(x) {
            violate(ctx, "C10/not-well-formed", "fdt_xml_data", format!("Sender::fdt_xml_data(): {}", e));
        }
    }
    if scn.with_receiver {
        // read by flute's own receiver: the XML handed to fdt_received is the sender's document
        let mut recv = RecvSpec::basic();
        recv.object_timeout_ms = Some(3_600_000);
        let monitor = Monitor::new(ctx, true, WriterFaults::default(), "r0");
        let mut rr = RecvRun::new(&recv, ctx, monitor.clone(), false, "r0");
        let ep = scn.sender.spec.endpoint.build();
        for p in &trace.pkts {
            rr.push(&ep, &p.bytes, p.t_us);
        }
        let st = monitor.state.borrow();
        let sent: BTreeSet<Vec<u8>> = txs.iter().filter_map(|t| t.xml.clone()).collect();
        for f in &st.fdts {
            if !sent.contains(f.xml.as_bytes()) {
                violate(ctx, "C10/receiver-reads-different-fdt", "-", format!("fdt_received got a document ({} bytes) that the sender never emitted", f.xml.len()));
            }
        }
        let seen: BTreeSet<&[u8]> = st.fdts.iter().map(|f| f.xml.as_bytes()).collect();
        for t in &txs {
            if let (Some(x), Some(_), None) = (&t.xml, t.complete_at, &t.error) {
                if !seen.contains(x.as_slice()) && (trace.finished || t.last + 1 < trace.pkts.len()) {
                    // an instance already expired on arrival is legitimately not reported
                    let expired = t.doc.as_ref().and_then(|d| d.expires).map(|e| e.saturating_sub(NTP_OFFSET) * 1_000_000 < trace.pkts[t.last].t_us).unwrap_or(false);
                    if !expired {
                        violate(ctx, "C10/receiver-missed-fdt", "-", format!("FDT instance {} was completely emitted but flute's receiver never reported it", t.instance_id));
                    }
                }
            }
        }
        // ... every object whose packets follow a received instance that lists it (and is still valid then) is FOUND in
        // that instance by flute's receiver: a writer is requested for it
        for (i, toi) in trace.obj_toi.iter().enumerate() {
            let toi = match toi {
                Some(t) => *t,
                None => continue,
            };
            let found = st.writers.iter().any(|w| w.toi == toi);
            if found {
                continue;
            }
            let listed_then_sent = txs.iter().any(|t| {
                let lists = t.doc.as_ref().map(|d| d.files.iter().any(|f| f.toi == toi)).unwrap_or(false);
                let expires_us = t.doc.as_ref().and_then(|d| d.expires).map(|e| e.saturating_sub(NTP_OFFSET) * 1_000_000).unwrap_or(0);
                match (lists, t.complete_at, &t.error) {
                    // (the receiver keeps a bounded list of current instances: the listing instance must be one of the
                    // five most recent distinct instances completely emitted before the packet)
                    (true, Some(c), None) => {
                        seen.contains(t.xml.as_deref().unwrap_or(&[]))
                            && trace.pkts.iter().any(|p| {
                                p.dec.toi == toi && p.idx > c && p.t_us + 2_000_000 < expires_us && {
                                    let newer: BTreeSet<u32> = txs.iter().filter(|x| x.complete_at.map(|cx| cx > c && cx < p.idx).unwrap_or(false) && x.instance_id != t.instance_id).map(|x| x.instance_id).collect();
                                    newer.len() < 5
                                }
                            })
                    }
                    _ => false,
                }
            });
            if listed_then_sent {
                violate(
                    ctx,
                    "C10/receiver-does-not-find-listed-object",
                    "-",
                    format!("object {} TOI={}: flute's receiver got an instance listing it, packets of the object followed while the instance was valid, yet no writer was ever requested for it", i, toi),
                );
            }
        }
        // ... and the metadata flute's receiver hands to the application for each object is what the sender was given
        for w in st.writers.iter() {
            let objs: Vec<usize> = (0..trace.obj_toi.len()).filter(|i| trace.obj_toi[*i] == Some(w.toi)).collect();
            if objs.len() != 1 || w.toi == 0 {
                continue;
            }
            let o = &scn.sender.objects[objs[0]];
            let want = expect_file(o, w.toi, &scn.sender.spec, 0);
            let m = &w.meta;
            let mut bad = |field: &str, class: &str, g: String, wnt: String| {
                violate(
                    ctx,
                    &format!("C10/receiver-metadata-{}", field),
                    class,
                    format!("object TOI={}: flute's receiver reports {} {} but the sender was given {}", w.toi, field, g, wnt),
                );
            };
            if m.content_location != want.location {
                bad("location", "-", format!("{:?}", m.content_location), format!("{:?}", want.location));
            }
            if m.content_length.map(|v| v as u64) != want.content_length {
                bad("content-length", "-", format!("{:?}", m.content_length), format!("{:?}", want.content_length));
            }
            if want.transfer_length.is_some() && m.transfer_length.map(|v| v as u64) != want.transfer_length {
                bad("transfer-length", "-", format!("{:?}", m.transfer_length), format!("{:?}", want.transfer_length));
            }
            if m.content_type != want.ctype {
                let ws = want.ctype.as_ref().map(|s| s.contains(['\t', '\n', '\r'])).unwrap_or(false);
                bad("type", if ws { "literal-whitespace" } else { "-" }, format!("{:?}", m.content_type), format!("{:?}", want.ctype));
            }
            if m.md5 != want.md5 {
                bad("md5", "-", format!("{:?}", m.md5), format!("{:?}", want.md5));
            }
            if m.e_tag != want.etag {
                let ws = want.etag.as_ref().map(|s| s.contains(['\t', '\n', '\r'])).unwrap_or(false);
                bad("etag", if ws { "literal-whitespace" } else { "-" }, format!("{:?}", m.e_tag), format!("{:?}", want.etag));
            }
            // the groups of the session apply to every object, the groups of the object come in addition
            let mut want_groups = scn.sender.spec.groups.clone().unwrap_or_default();
            want_groups.extend(want.groups.iter().cloned());
            let got_groups = m.groups.clone().unwrap_or_default();
            if got_groups != want_groups {
                bad("groups", "-", format!("{:?}", got_groups), format!("{:?} (session groups, then the object's)", want_groups));
            }
            let got_cenc = match m.cenc {
                None | Some(flute::core::lct::Cenc::Null) => None,
                Some(flute::core::lct::Cenc::Zlib) => Some("zlib"),
                Some(flute::core::lct::Cenc::Deflate) => Some("deflate"),
                Some(flute::core::lct::Cenc::Gzip) => Some("gzip"),
            };
            if got_cenc.map(|s| s.to_string()) != want.encoding {
                bad("encoding", "-", format!("{:?}", m.cenc), format!("{:?}", want.encoding));
            }
            // the FEC OTI of the object (its own override, else the session's)
            if let Some(got) = &m.oti {
                let w = o.eff_oti(&scn.sender.spec.oti);
                // (Raptor / RaptorQ signal Z, not B: the block length the receiver reports is derived; the number of
                // parity symbols is not always signalled)
                let derived = matches!(w.scheme, Scheme::Raptor | Scheme::RaptorQ);
                let got_t = (got.fec_encoding_id as u8, got.encoding_symbol_length as u32, if derived { 0 } else { got.maximum_source_block_length });
                let want_t = (w.scheme.fec_id(), w.e as u32, if derived { 0 } else { w.b });
                if got_t != want_t {
                    bad("fec-oti", "-", format!("(id, E, B) = {:?}", got_t), format!("{:?}", want_t));
                }
            }
            use flute::receiver::writer::ObjectCacheControl as CC;
            let cache_ok = match (&o.cache, &m.cache_control) {
                (None, CC::ExpiresAtHint(_)) | (None, CC::NoCache) => true,
                (Some(CacheSpec::NoCache), CC::NoCache) => true,
                (Some(CacheSpec::MaxStale), CC::MaxStale) => true,
                (Some(CacheSpec::ExpiresMs(_)), CC::ExpiresAt(_)) => true,
                (Some(CacheSpec::ExpiresAtMs(ms)), CC::ExpiresAt(t)) => *t == std::time::UNIX_EPOCH + std::time::Duration::from_secs(ms / 1000),
                _ => false,
            };
            if !cache_ok {
                bad("cache-control", "-", format!("{:?}", m.cache_control), format!("{:?}", o.cache));
            }
        }
        drop(st);
        rr.drop_receiver();
    }
}

impl Prop for C10 {
    fn id(&self) -> &'static str {
        "C10"
    }
    fn info(&self) -> PropInfo {
        PropInfo {
            level: "exploration",
            rule: "seeded histories of add / remove / publish / set_complete / read on a virtual clock (polled at gaps <= 1 s, runs of 12 s to several minutes of simulated time): 1-5 objects with hostile metadata strings (quotes, &, <, >, ]]>, non-ASCII, tabs, leading/trailing spaces, 1 kB content types), per-object OTI overrides, cache-control variants, object and session groups, ETags, cenc; fdt_start_id anywhere in [0, 2^20) incl. just below the wrap; FDT duration 1 s .. 3 days; both publish modes; FDT cenc; sender-wide FEC for the FDT. Every TOI-0 object is reassembled from the wire by the harness (RFC 5052 partition), re-inflated and read with the harness's own XML reader. Oracle: well-formed; one id <-> one content; ids consecutive mod 2^20 from fdt_start_id; each instance (matched to its explicit or automatic publication) lists exactly the announced set at publish time with every attribute unaltered; Expires = publish second + duration; successor completely emitted before the predecessor's Expires second; in 40% of runs the stream is also read by flute's receiver (fdt_received document = emitted document). Non-trivial: >= 2 FDT transmissions.",
            assumptions: vec![
                "publication events: successful publish() calls, transfer starts in being-transferred mode; any further instance is an automatic publication at the read that emits its first packet",
                "harness XML reader, RFC decoder, flate2",
            ],
            real: vec!["Sender/Fdt/FileDesc::to_file_xml/quick-xml serialisation", "flute receiver (40% of runs)"],
            stub: vec!["application timeline", "wall clock", "poll schedule"],
        }
    }
    fn runs(&self, tier: Tier) -> u64 {
        match tier {
            Tier::Quick => 4000,
            Tier::Thorough => 120_000,
        }
    }
    fn generate(&self, _idx: u64, tier: Tier, rng: &mut Rng) -> Value {
        serde_json::to_value(gen(rng, tier)).unwrap()
    }
    fn run(&self, scn: &Value, ctx: &Ctx, scratch: &Path) {
        match serde_json::from_value::<Scn>(scn.clone()) {
            Ok(s) => run(&s, ctx, scratch),
            Err(e) => ctx.borrow_mut().note(&format!("bad-scenario:{}", e)),
        }
    }
    fn shrink(&self, scn: &Value) -> Vec<Value> {
        let s: Scn = match serde_json::from_value(scn.clone()) {
            Ok(s) => s,
            Err(_) => return vec![],
        };
        let mut out: Vec<Scn> = shrink_sender_scn(&s.sender).into_iter().map(|c| Scn { sender: c, with_receiver: s.with_receiver }).collect();
        if s.with_receiver {
            out.push(Scn { sender: s.sender.clone(), with_receiver: false });
        }
        out.into_iter().map(|s| serde_json::to_value(s).unwrap()).collect()
    }
}
