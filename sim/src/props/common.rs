//! Generators and oracles shared by several properties.

use crate::ctx::Ctx;
use crate::monitor::*;
use crate::rng::Rng;
use crate::sdrv::*;
use crate::spec::*;
use crate::wire;
use base64::Engine;
use std::time::{Duration, SystemTime, UNIX_EPOCH};

pub fn parity_for(rng: &mut Rng, scheme: Scheme, b: u32, allow_zero_rs: bool) -> u32 {
    match scheme {
        Scheme::NoCode => 0,
        Scheme::Rs28 => {
            let lo = if allow_zero_rs { 0 } else { 1 };
            rng.range(lo, 4).min(255 - b as u64) as u32
        }
        Scheme::Rs28Us => {
            let lo = if allow_zero_rs { 0 } else { 1 };
            rng.range(lo, 4) as u32
        }
        Scheme::RaptorQ | Scheme::Raptor => rng.range(0, 4) as u32,
    }
}

/// OTI for objects: tiny symbol and block sizes are welcome.
pub fn gen_obj_oti(rng: &mut Rng, scheme: Option<Scheme>) -> OtiSpec {
    let scheme = scheme.unwrap_or_else(|| *rng.pick(&Scheme::ALL));
    let e = *rng.pick(&[1u16, 2, 3, 4, 7, 8, 16, 16, 64, 64, 200, 1400]);
    let mut b = *rng.pick(&[1u32, 2, 3, 4, 4, 8, 8, 16, 64]);
    if scheme == Scheme::Raptor {
        // raptor-code needs at least 4 source symbols per block (see DESIGN D23): keep B >= 4 here,
        // small blocks still arise from short objects
        b = b.max(4);
    }
    let parity = parity_for(rng, scheme, b, false);
    let mut o = OtiSpec::new(scheme, e, b, parity, rng.chance(0.5));
    if scheme == Scheme::RaptorQ || scheme == Scheme::Raptor {
        o.al = if e % 4 == 0 && rng.chance(0.5) { 4 } else { 1 };
    }
    if scheme == Scheme::RaptorQ && rng.chance(0.3) {
        // RaptorQ sub-blocking (N > 1): every symbol is made of N sub-symbols of a multiple of Al bytes
        let n = *rng.pick(&[2u16, 3, 4]);
        if e % (o.al as u16 * n) == 0 {
            o.sub_blocks = n;
        }
    }
    o
}

/// OTI for the sender default (also used for the FDT): symbols large enough to keep the FDT short.
pub fn gen_sender_oti(rng: &mut Rng, scheme: Option<Scheme>) -> OtiSpec {
    let scheme = scheme.unwrap_or_else(|| *rng.pick(&Scheme::ALL));
    let e = *rng.pick(&[128u16, 256, 512, 1024, 1400]);
    let mut b = *rng.pick(&[2u32, 4, 8, 64]);
    let mut e = e;
    if scheme == Scheme::Raptor {
        // Raptor cannot encode blocks of 2 or 3 symbols (refused at publish time): keep the FDT in
        // one block of at least 4 symbols
        b = 64;
        e = *rng.pick(&[32u16, 64]);
    }
    let parity = parity_for(rng, scheme, b, false);
    let mut o = OtiSpec::new(scheme, e, b, parity, rng.chance(0.5));
    if scheme == Scheme::RaptorQ || scheme == Scheme::Raptor {
        o.al = if e % 4 == 0 && rng.chance(0.5) { 4 } else { 1 };
    }
    o
}

/// Boundary object lengths for (E, B): 0, 1, around one symbol, one block, a_large != a_small, ...
pub fn boundary_lengths(o: &OtiSpec, max_symbols: u64) -> Vec<usize> {
    let e = o.e as u64;
    let b = o.b as u64;
    let mut v: Vec<u64> = vec![
        0,
        1,
        e.saturating_sub(1),
        e,
        e + 1,
        2 * e,
        (b * e).saturating_sub(1),
        b * e,
        b * e + 1,
        (b + 1) * e,
        2 * b * e,
        2 * b * e + 1,
        (2 * b + 1) * e,
        3 * b * e - e / 2,
        (3 * b + 1) * e + 1,
        5 * b * e + 3,
    ];
    let cap = (max_symbols * e).min(o.max_transfer_length());
    v.retain(|x| *x <= cap);
    v.sort();
    v.dedup();
    v.into_iter().map(|x| x as usize).collect()
}

pub fn gen_len(rng: &mut Rng, o: &OtiSpec, max_symbols: u64) -> usize {
    let bl = boundary_lengths(o, max_symbols);
    if rng.chance(0.7) && !bl.is_empty() {
        *rng.pick(&bl)
    } else {
        let cap = (max_symbols * o.e as u64).min(o.max_transfer_length()).min(65536);
        rng.range(0, cap) as usize
    }
}

pub const HOSTILE_STRINGS: [&str; 10] = [
    "plain",
    "a&b",
    "x<y>z",
    "quo\"te'apos",
    "]]>cdata",
    "é漢字-ü",
    "tab\there",
    "  spaces  ",
    "&amp;already",
    "semi;colon&#x41;",
];

pub fn gen_sender_spec(rng: &mut Rng, oti: OtiSpec) -> SenderSpec {
    let mut s = SenderSpec::basic(oti);
    s.tsi = *rng.pick(&[1u64, 2, 0xFFFF, 0x10000, 0xFFFF_FFFF, 0x1_0000_0000, 0xFFFF_FFFF_FFFF]);
    s.full_fdt = rng.chance(0.6);
    s.interleave = rng.range(1, 8) as u8;
    let nq = rng.range(1, 3) as usize;
    let mut prios = vec![0u32, 1, 2, 3, 4];
    rng.shuffle(&mut prios);
    s.queues = prios[..nq]
        .iter()
        .map(|p| (*p, rng.range(0, 4) as u32))
        .collect();
    s.queues.sort();
    s.fdt_inband_sct = rng.chance(0.7);
    s.fdt_cenc = if rng.chance(0.2) {
        *rng.pick(&CencSpec::ALL)
    } else {
        CencSpec::Null
    };
    s.fdt_start_id = if rng.chance(0.2) {
        rng.range(0, 0xFFFFF) as u32
    } else {
        1
    };
    s.rfc3926 = rng.chance(0.1);
    s.toi_len = *rng.pick(&ToiLen::ALL);
    s.toi_initial = Some(
        if rng.chance(0.7) {
            1u128
        } else {
            rng.range(1, 60000) as u128
        }
        .to_string(),
    );
    if rng.chance(0.3) {
        s.groups = Some(
            (0..rng.range(1, 2))
                .map(|i| format!("sg{}-{}", i, rng.pick(&HOSTILE_STRINGS)))
                .collect(),
        );
    }
    s
}

pub fn gen_object(rng: &mut Rng, idx: usize, sender: &SenderSpec, max_symbols: u64) -> ObjectSpec {
    let own_oti = rng.chance(0.8);
    let oti = if own_oti {
        Some(gen_obj_oti(rng, None))
    } else {
        None
    };
    let eff = oti.clone().unwrap_or_else(|| sender.oti.clone());
    let len = gen_len(rng, &eff, max_symbols);
    let mut o = ObjectSpec::basic(len, rng.next_u64(), idx);
    o.oti = oti;
    o.kind = *rng.pick(&[
        ContentKind::Random,
        ContentKind::Random,
        ContentKind::Text,
        ContentKind::Counter,
        ContentKind::Zeros,
    ]);
    o.location = match rng.below(4) {
        0 => format!("file:///obj{}.bin", idx),
        1 => format!("file:///dir{}/sub/obj{}.bin", idx % 3, idx),
        2 => format!("http://example.com/a/b/obj{}.dat", idx),
        _ => format!("file:///o{}%20x.bin", idx),
    };
    o.ctype = rng
        .pick(&["application/octet-stream", "text/plain", "a/b; q=\"1&2\"", "x<y>"])
        .to_string();
    o.md5 = rng.chance(0.8);
    o.prio = sender.queues[rng.below(sender.queues.len() as u64) as usize].0;
    o.inband_cenc = rng.chance(0.5);
    o.max_transfer_count = *rng.pick(&[1u32, 1, 1, 2, 3]);
    o.cache = match rng.below(8) {
        0 => Some(CacheSpec::NoCache),
        1 => Some(CacheSpec::MaxStale),
        2 => Some(CacheSpec::ExpiresMs(rng.range(1, 100_000_000))),
        3 => Some(CacheSpec::ExpiresAtMs(T0_MS + rng.range(0, 1_000_000_000))),
        _ => None,
    };
    if rng.chance(0.3) {
        o.groups = Some(
            (0..rng.range(1, 2))
                .map(|i| format!("og{}-{}", i, rng.pick(&HOSTILE_STRINGS)))
                .collect(),
        );
    }
    if rng.chance(0.3) {
        o.etag = Some(format!("etag-{}-{}", idx, rng.pick(&HOSTILE_STRINGS)));
    }
    // the typed builders (CreateFromBuffer / CreateFromStream / CreateFromFile) instead of ObjectDesc::create_from_*
    o.via_builder = rng.chance(0.1);
    // a paced object now and then (target acquisition): a deadline already past, a zero duration, a few milliseconds
    if rng.chance(0.05) {
        o.target = Some(match rng.below(5) {
            0 => TargetSpec::Fast,
            1 => TargetSpec::DurationMs(*rng.pick(&[0u64, 1, 5, 20])),
            2 => TargetSpec::AtMs(T0_MS - rng.range(1, 10_000)),
            3 => TargetSpec::AtMs(T0_MS + rng.range(0, 30)),
            _ => TargetSpec::DurationMs(rng.range(1, 40)),
        });
    }
    if rng.chance(0.05) {
        o.optel = Some(("traceparent".to_string(), format!("00-{:032x}-{:016x}-01", rng.next_u64() as u128 * 7919, rng.next_u64())));
    }
    o.source = match rng.below(20) {
        0..=13 => SourceSpec::Buffer,
        14..=16 => {
            if rng.chance(0.35) {
                // handed over at a non-zero position; short reads
                SourceSpec::StreamAt(if rng.chance(0.5) { ReadSched::Full } else { ReadSched::Fixed(*rng.pick(&[3usize, 64, 1000])) }, *rng.pick(&[1u32, 500, 1000]))
            } else {
                // full reads, short reads, reads interrupted by a signal (EINTR: retried)
                match rng.below(6) {
                    0 => SourceSpec::Stream(ReadSched::Fixed(*rng.pick(&[1usize, 3, 64, 1000]))),
                    1 => SourceSpec::Stream(ReadSched::Interrupted { chunk: *rng.pick(&[1usize, 7, 64, 4096]), every: rng.range(2, 10) as u32 }),
                    2 => SourceSpec::Stream(ReadSched::Random { seed: rng.next_u64(), max: *rng.pick(&[10usize, 100, 5000]) }),
                    _ => SourceSpec::Stream(ReadSched::Full),
                }
            }
        }
        17..=18 => SourceSpec::File,
        _ => SourceSpec::FileInRam,
    };
    o
}

pub fn md5_b64(data: &[u8]) -> String {
    base64::engine::general_purpose::STANDARD.encode(md5::compute(data).0)
}

/// Tag naming the known-defect area an object falls in ("-" when none).
pub fn defect_tags(o: &ObjectSpec, _sender: &SenderSpec, _transfer_len: Option<u64>) -> String {
    let mut tags: Vec<&str> = Vec::new();
    if o.cenc != CencSpec::Null {
        tags.push("cenc");
    }
    if o.cache == Some(CacheSpec::NoCache) {
        tags.push("no-cache");
    }
    if tags.is_empty() {
        "-".to_string()
    } else {
        tags.join("+")
    }
}

pub fn ntp_floor_secs(t: SystemTime) -> u64 {
    t.duration_since(UNIX_EPOCH).unwrap().as_secs()
}

pub fn unix_secs(t: SystemTime) -> u64 {
    t.duration_since(UNIX_EPOCH).unwrap().as_secs()
}

pub struct DeliveryOpts {
    pub rule_prefix: &'static str,
    /// expected number of complete copies for an object (None = at least one)
    pub receive_once: bool,
    pub check_meta: bool,
    /// earliest / latest instant (UNIX us) at which an FDT could have been generated
    pub t_min_us: u64,
    pub t_max_us: u64,
}

/// Metadata handed to the writer builder vs what the sender was given. One-sided where the value
/// depends on which FDT instance the receiver attached through (cache expiry).
pub fn check_meta(
    ctx: &Ctx,
    rule_prefix: &str,
    tag: &str,
    w: &WriterRec,
    o: &ObjectSpec,
    sender: &SenderSpec,
    t_min_us: u64,
    t_max_us: u64,
) {
    let m = &w.meta;
    let url = url::Url::parse(&o.location).map(|u| u.to_string()).unwrap_or_default();
    let mut bad = |field: &str, got: String, want: String| {
        crate::ctx::violate(
            ctx,
            &format!("{}/meta-{}", rule_prefix, field),
            tag,
            format!("toi={} {}: writer got {} but the sender was given {}", w.toi, field, got, want),
        );
    };
    if m.content_location != url {
        bad("location", format!("{:?}", m.content_location), format!("{:?}", url));
    }
    if m.content_length != Some(o.len) {
        bad("length", format!("{:?}", m.content_length), format!("{:?}", Some(o.len)));
    }
    if m.content_type.as_deref() != Some(o.ctype.as_str()) {
        bad("type", format!("{:?}", m.content_type), format!("{:?}", o.ctype));
    }
    let want_md5 = if o.md5 { Some(md5_b64(&o.content())) } else { None };
    if m.md5 != want_md5 {
        bad("md5", format!("{:?}", m.md5), format!("{:?}", want_md5));
    }
    let mut want_groups: Vec<String> = sender.groups.clone().unwrap_or_default();
    want_groups.extend(o.groups.clone().unwrap_or_default());
    let got_groups = m.groups.clone().unwrap_or_default();
    if got_groups != want_groups {
        bad("groups", format!("{:?}", got_groups), format!("{:?}", want_groups));
    }
    if m.e_tag != o.etag {
        bad("etag", format!("{:?}", m.e_tag), format!("{:?}", o.etag));
    }
    if let Some(c) = m.cenc {
        if c as u8 != o.cenc.code() {
            bad("cenc", format!("{:?}", c), o.cenc.name().to_string());
        }
    }
    use flute::receiver::writer::ObjectCacheControl as OC;
    let lo = t_min_us / 1_000_000;
    let hi = t_max_us / 1_000_000 + 1;
    let within = |t: SystemTime, a: u64, b: u64| -> bool {
        let s = t.duration_since(UNIX_EPOCH).unwrap();
        s.subsec_nanos() == 0 && s.as_secs() >= a && s.as_secs() <= b
    };
    let ok = match (&o.cache, &m.cache_control) {
        (Some(CacheSpec::NoCache), OC::NoCache) => true,
        (Some(CacheSpec::MaxStale), OC::MaxStale) => true,
        (Some(CacheSpec::ExpiresMs(d)), OC::ExpiresAt(t)) => {
            // publish time + d, truncated to NTP seconds, for some publication instant of the run
            within(*t, (t_min_us + d * 1000) / 1_000_000, (t_max_us + d * 1000) / 1_000_000 + 1)
        }
        (Some(CacheSpec::ExpiresAtMs(ms)), OC::ExpiresAt(t)) => {
            *t == UNIX_EPOCH + Duration::from_secs(ms / 1000)
        }
        (None, OC::ExpiresAtHint(t)) => {
            let d = sender.fdt_duration_ms / 1000;
            within(*t, lo + d, hi + d)
        }
        _ => false,
    };
    if !ok {
        bad("cache", format!("{:?}", m.cache_control), format!("{:?}", o.cache));
    }
}

// ---------------------------------------------------------------------------------------------
// Scenario shrinking shared by the properties built on SenderScn

fn remove_object(s: &SenderScn, i: usize) -> SenderScn {
    let mut n = s.clone();
    n.objects.remove(i);
    let mut ops = Vec::new();
    for t in &s.ops {
        let op = match &t.op {
            Op::Add(j) if *j == i => continue,
            Op::Remove(j) if *j == i => continue,
            Op::Trigger { obj, .. } if *obj == i => continue,
            Op::Add(j) => Op::Add(if *j > i { j - 1 } else { *j }),
            Op::Remove(j) => Op::Remove(if *j > i { j - 1 } else { *j }),
            Op::Trigger { obj, at_us } => Op::Trigger {
                obj: if *obj > i { obj - 1 } else { *obj },
                at_us: *at_us,
            },
            o => o.clone(),
        };
        ops.push(TimedOp { when: t.when.clone(), op });
    }
    n.ops = ops;
    n
}

pub fn shrink_object(o: &ObjectSpec) -> Vec<ObjectSpec> {
    let mut out = Vec::new();
    let mut push = |f: &dyn Fn(&mut ObjectSpec)| {
        let mut n = o.clone();
        f(&mut n);
        if n != *o {
            out.push(n);
        }
    };
    push(&|n| n.len /= 2);
    push(&|n| n.len = n.len.saturating_sub(1));
    push(&|n| n.cenc = CencSpec::Null);
    push(&|n| n.cache = None);
    push(&|n| n.groups = None);
    push(&|n| n.etag = None);
    push(&|n| n.source = SourceSpec::Buffer);
    push(&|n| n.max_transfer_count = 1);
    push(&|n| n.carousel = None);
    push(&|n| n.start_ms = None);
    push(&|n| n.target = None);
    push(&|n| n.kind = ContentKind::Counter);
    push(&|n| n.inband_cenc = false);
    push(&|n| n.md5 = true);
    push(&|n| n.ctype = "a/b".into());
    push(&|n| n.immediate_stop = None);
    push(&|n| {
        if let Some(x) = n.oti.as_mut() {
            x.parity = x.parity.min(1)
        }
    });
    push(&|n| {
        if let Some(x) = n.oti.as_mut() {
            x.inband_fti = true
        }
    });
    push(&|n| {
        if let Some(x) = n.oti.as_mut() {
            x.al = 1
        }
    });
    out
}

pub fn shrink_sender_scn(s: &SenderScn) -> Vec<SenderScn> {
    let mut out = Vec::new();
    for i in 0..s.objects.len() {
        if s.objects.len() > 1 {
            out.push(remove_object(s, i));
        }
    }
    for i in 0..s.ops.len() {
        if !matches!(s.ops[i].op, Op::Add(_)) {
            let mut n = s.clone();
            n.ops.remove(i);
            out.push(n);
        }
    }
    for i in 0..s.objects.len() {
        for c in shrink_object(&s.objects[i]) {
            let mut n = s.clone();
            n.objects[i] = c;
            out.push(n);
        }
    }
    let mut push = |f: &dyn Fn(&mut SenderScn)| {
        let mut n = s.clone();
        f(&mut n);
        if n != *s {
            out.push(n);
        }
    };
    push(&|n| n.spec.interleave = 1);
    push(&|n| {
        n.spec.queues = vec![(0, 1)];
        for o in n.objects.iter_mut() {
            o.prio = 0;
        }
    });
    push(&|n| n.poll.burst = None);
    push(&|n| n.poll.gap = GapSpec::FixedUs(1000));
    push(&|n| n.spec.fdt_cenc = CencSpec::Null);
    push(&|n| n.spec.groups = None);
    push(&|n| n.spec.tsi = 1);
    push(&|n| n.spec.toi_len = ToiLen::L112);
    push(&|n| n.spec.toi_initial = Some("1".into()));
    push(&|n| n.spec.fdt_start_id = 1);
    push(&|n| n.spec.rfc3926 = false);
    push(&|n| n.spec.full_fdt = true);
    push(&|n| n.spec.fdt_inband_sct = true);
    push(&|n| n.spec.oti = OtiSpec::new(Scheme::NoCode, 1400, 64, 0, true));
    push(&|n| {
        for t in n.ops.iter_mut() {
            t.when = When::AtUs(0);
        }
    });
    out
}
