//! Sender -> channel -> receiver sessions shared by the receiver-side properties. FLUTE is
//! unidirectional, so a session is simulated in three phases: the sender run (packet trace), the
//! channel (which copies arrive, when, in which order, altered how) and the receiver run.

use crate::ctx::Ctx;
use crate::fdtview::{self, FdtTx};
use crate::monitor::*;
use crate::rdrv::*;
use crate::sdrv::*;
use crate::spec::*;
use std::collections::{BTreeMap, BTreeSet};
use std::path::Path;
use std::rc::Rc;

#[derive(Clone, Debug)]
pub struct ObjView {
    pub idx: usize,
    pub toi: u128,
    pub scheme: Scheme,
    pub e: u64,
    pub b: u64,
    pub parity: u64,
    pub transfer_len: u64,
    /// source symbols per block (RFC 5052 partition of the announced transfer length)
    pub ks: Vec<u64>,
    pub content: Vec<u8>,
    /// indices of this object's packets in the sender trace
    pub pkts: Vec<usize>,
}

pub struct Session {
    pub trace: SenderTrace,
    pub objs: Vec<ObjView>,
    pub txs: Vec<FdtTx>,
}

pub fn run_sender(scn: &SenderScn, ctx: &Ctx, scratch: &Path) -> Option<Session> {
    let drv = match Driver::new(scn, ctx, scratch) {
        Ok(d) => d,
        Err(e) => {
            ctx.borrow_mut()
                .note(&format!("sender-build-failed:{}", crate::engine::truncate(&e, 40)));
            return None;
        }
    };
    let trace = drv.run(scn);
    let txs = fdtview::fdt_transmissions(&trace.pkts);
    let mut objs = Vec::new();
    for (i, t) in trace.obj_toi.iter().enumerate() {
        let toi = match t {
            Some(t) => *t,
            None => continue,
        };
        let o = &scn.objects[i];
        let oti = o.eff_oti(&scn.spec.oti);
        let announced = txs
            .iter()
            .filter_map(|t| t.doc.as_ref())
            .flat_map(|d| d.files.iter())
            .find(|f| f.toi == toi)
            .and_then(|f| f.transfer_length);
        let transfer_len = match announced {
            Some(t) => t,
            None => {
                if o.cenc == CencSpec::Null {
                    o.len as u64
                } else {
                    continue;
                }
            }
        };
        objs.push(ObjView {
            idx: i,
            toi,
            scheme: oti.scheme,
            e: oti.e as u64,
            b: oti.b as u64,
            parity: oti.parity as u64,
            transfer_len,
            ks: fdtview::block_ks(oti.b as u64, transfer_len, oti.e as u64),
            content: o.content(),
            pkts: trace
                .pkts
                .iter()
                .filter(|p| p.dec.toi == toi)
                .map(|p| p.idx)
                .collect(),
        });
    }
    Some(Session { trace, objs, txs })
}

/// Does the multiset of delivered sender packets (indices into the trace, in delivery order) give
/// the receiver, per block, >= k distinct symbols (MDS codes) or all k source symbols (others)?
pub fn blocks_recoverable(trace: &SenderTrace, obj: &ObjView, delivered: &[usize]) -> bool {
    if obj.transfer_len == 0 {
        // an empty object is represented by its lone packet
        return delivered.iter().any(|i| trace.pkts[*i].dec.toi == obj.toi);
    }
    let mut got: BTreeMap<u32, BTreeSet<u32>> = BTreeMap::new();
    for i in delivered {
        let p = &trace.pkts[*i];
        if p.dec.toi != obj.toi {
            continue;
        }
        got.entry(p.dec.sbn).or_default().insert(p.dec.esi);
    }
    for (sbn, k) in obj.ks.iter().enumerate() {
        let set = match got.get(&(sbn as u32)) {
            Some(s) => s,
            None => return false,
        };
        if obj.scheme.is_mds() {
            let n = set.iter().filter(|e| (**e as u64) < k + obj.parity).count() as u64;
            if n < *k {
                return false;
            }
        } else if !(0..*k).all(|e| set.contains(&(e as u32))) {
            return false;
        }
    }
    true
}

/// Position (in `delivered`) at which some FDT instance listing `toi` becomes decodable, if any.
pub fn fdt_recoverable_at(
    sess: &Session,
    sender_scheme: Scheme,
    sender_parity: u64,
    toi: u128,
    delivered: &[usize],
) -> Option<usize> {
    // group transmissions by instance id; content is the same for all transmissions of one id
    let mut by_id: BTreeMap<u32, &FdtTx> = BTreeMap::new();
    for t in &sess.txs {
        if t.doc.as_ref().map(|d| d.files.iter().any(|f| f.toi == toi)).unwrap_or(false) {
            by_id.entry(t.instance_id).or_insert(t);
        }
    }
    let mut got: BTreeMap<u32, BTreeMap<u32, BTreeSet<u32>>> = BTreeMap::new();
    for (pos, i) in delivered.iter().enumerate() {
        let p = &sess.trace.pkts[*i];
        if p.dec.toi != 0 {
            continue;
        }
        let id = match p.dec.fdt {
            Some((_, id)) => id,
            None => continue,
        };
        let tx = match by_id.get(&id) {
            Some(t) => *t,
            None => continue,
        };
        got.entry(id).or_default().entry(p.dec.sbn).or_default().insert(p.dec.esi);
        let ks = fdtview::block_ks(tx.b, tx.transfer_length, tx.e);
        let blocks = &got[&id];
        let ok = ks.iter().enumerate().all(|(sbn, k)| match blocks.get(&(sbn as u32)) {
            None => false,
            Some(set) => {
                if sender_scheme.is_mds() {
                    set.iter().filter(|e| (**e as u64) < k + sender_parity).count() as u64 >= *k
                } else {
                    (0..*k).all(|e| set.contains(&(e as u32)))
                }
            }
        });
        if ok {
            return Some(pos);
        }
    }
    None
}

pub struct Received {
    pub monitor: Rc<Monitor>,
    pub run: RecvRun,
}

/// Feed deliveries into a fresh receiver. `cleanup_every` = call cleanup after every n-th push.
pub fn receive(
    recv: &RecvSpec,
    ctx: &Ctx,
    eps: &[flute::core::UDPEndpoint],
    deliveries: &[Delivery],
    faults: WriterFaults,
    label: &str,
    cleanup_every: u32,
    offset_us: i64,
) -> Received {
    let monitor = Monitor::new(ctx, recv.md5_check, faults, label);
    let mut run = RecvRun::new(recv, ctx, monitor.clone(), false, label);
    run.offset_us = offset_us;
    for (i, d) in deliveries.iter().enumerate() {
        run.push(&eps[d.ep], &d.bytes, d.t_us);
        if cleanup_every > 0 && (i as u32 + 1) % cleanup_every == 0 {
            run.cleanup(d.t_us);
        }
    }
    Received { monitor, run }
}

pub fn completes_exact(monitor: &Monitor, obj: &ObjView) -> (usize, usize, usize) {
    // (complete & exact, complete & wrong, failed)
    let st = monitor.state.borrow();
    let mut exact = 0;
    let mut wrong = 0;
    let mut failed = 0;
    for w in st.writers.iter().filter(|w| w.toi == obj.toi) {
        match w.terminal {
            Some(Terminal::Complete) => {
                if w.data == obj.content {
                    exact += 1
                } else {
                    wrong += 1
                }
            }
            _ => failed += 1,
        }
    }
    (exact, wrong, failed)
}

pub fn deliveries_in_order(trace: &SenderTrace, which: &[usize]) -> Vec<Delivery> {
    which
        .iter()
        .map(|i| Delivery {
            t_us: trace.pkts[*i].t_us,
            bytes: trace.pkts[*i].bytes.clone(),
            src: Some(*i),
            ep: 0,
        })
        .collect()
}
