//! C02 — loss recovery: any loss/duplication pattern (order preserved) that leaves k symbols per
//! block (and a decodable FDT instance listing the object) still delivers the object.

use super::common::*;
use super::session::*;
use crate::ctx::{violate, Ctx};
use crate::engine::*;
use crate::rng::Rng;
use crate::sdrv::*;
use crate::spec::*;
use serde::{Deserialize, Serialize};
use serde_json::Value;
use std::path::Path;

#[derive(Clone, Debug, PartialEq, Serialize, Deserialize)]
pub enum Loss {
    /// every mask in [lo, hi): packet i is delivered iff bit i is set (sessions of <= 16 packets)
    MaskRange { lo: u64, hi: u64, max_n: u32 },
    /// iid / burst loss and adjacent duplicates drawn during the run
    Sampled {
        p_drop: f64,
        burst: Option<(f64, f64)>,
        p_dup: f64,
        drop_first_fdt: bool,
    },
    /// per block exactly k + delta survivors; pref 0 = any, 1 = source first, 2 = repair first
    Threshold {
        delta: i32,
        pref: u8,
        p_dup: f64,
        drop_first_fdt: bool,
    },
}

#[derive(Clone, Debug, PartialEq, Serialize, Deserialize)]
pub struct Scn {
    pub sender: SenderScn,
    pub recv: RecvSpec,
    pub loss: Loss,
    /// (object timeout ms, spacing us): the deliveries are re-timed one every `spacing`, the receiver has this object
    /// timeout and `cleanup()` runs after every push. An object whose own packets never pause for half the timeout
    /// stays alive - also while everything it receives is redundant.
    #[serde(default)]
    pub retime: Option<(u64, u64)>,
    /// receiver wall clock minus the sender's, seconds (the FDT packets carry the sender current time: a constant skew of
    /// minutes, hours or years changes nothing)
    #[serde(default)]
    pub clock_offset_s: i64,
    /// with `drop_first_fdt`: the first transmission of EVERY FDT instance is lost (each instance is first received from
    /// its carousel repetition, after the packets of the objects it announces), not only that of the first instance
    #[serde(default)]
    pub every_first_tx: bool,
}

pub struct C02;

const CHUNK: u64 = 2048;
const CHUNKS_PER_SESSION: u64 = 32; // 2^16 / CHUNK

fn tiny_sessions() -> Vec<SenderScn> {
    let mut v = Vec::new();
    for scheme in Scheme::ALL {
        for shape in 0..3 {
            for interleave in [1u8, 2] {
                for inband in [true, false] {
                    for transfers in [1u32, 2] {
                        if transfers == 2 && (shape != 0 || interleave != 1) {
                            continue;
                        }
                        let (b, e): (u32, u16) = if scheme == Scheme::Raptor { (5, 4) } else { (3, 4) };
                        let len = match shape {
                            0 => b as usize * e as usize,
                            1 => 2 * b as usize * e as usize,
                            _ => (2 * b as usize - 1) * e as usize - 1,
                        };
                        let parity = if scheme == Scheme::NoCode { 0 } else { 1 };
                        let mut spec = SenderSpec::basic(OtiSpec::new(Scheme::NoCode, 1400, 64, 0, true));
                        spec.interleave = interleave;
                        spec.queues = vec![(0, 1)];
                        let mut o = ObjectSpec::basic(len, 0xC02 + v.len() as u64, 0);
                        o.oti = Some(OtiSpec::new(scheme, e, b, parity, inband));
                        o.max_transfer_count = transfers;
                        let mut poll = PollSpec::simple(1000);
                        poll.idle_polls_after_done = 0;
                        v.push(SenderScn {
                            spec,
                            objects: vec![o],
                            ops: vec![
                                TimedOp { when: When::AtUs(0), op: Op::Add(0) },
                                TimedOp { when: When::AtUs(0), op: Op::Publish },
                            ],
                            poll,
                            snapshots: false,
                        });
                    }
                }
            }
        }
    }
    v
}

/// One object with thousands of source blocks (decoded blocks pile up behind a missing FDT or a missing first block).
fn gen_many_blocks_session(rng: &mut Rng) -> SenderScn {
    let mut spec = SenderSpec::basic(OtiSpec::new(Scheme::NoCode, 1400, 64, 0, true));
    spec.interleave = 1;
    spec.queues = vec![(0, 1)];
    spec.fdt_carousel = CarouselSpec::DelayMs(50);
    let mut blocks = rng.range(2050, 4090);
    let (scheme, e, b, parity) = match rng.below(10) {
        0..=5 => (Scheme::NoCode, 16u16, 1u32, 0u32),
        6..=7 => (Scheme::Rs28Us, 4u16, 1u32, 1u32),
        // Raptor signals the number of source blocks on 16 bits: more than 255 blocks of 4 symbols
        _ => {
            blocks = rng.range(257, 700);
            (Scheme::Raptor, 4u16, 4u32, 1u32)
        }
    };
    let mut o = ObjectSpec::basic((blocks * b as u64 * e as u64) as usize, rng.next_u64(), 0);
    o.oti = Some(OtiSpec::new(scheme, e, b, parity, true));
    o.max_transfer_count = *rng.pick(&[1u32, 2]);
    let ops = vec![TimedOp { when: When::AtUs(0), op: Op::Add(0) }, TimedOp { when: When::AtUs(0), op: Op::Publish }];
    let poll = PollSpec { start_us: 0, gap: GapSpec::FixedUs(1000), burst: None, max_polls: 400, max_pkts: 20_000, idle_polls_after_done: 120 };
    SenderScn { spec, objects: vec![o], ops, poll, snapshots: false }
}

/// Object A is removed during its first transfer (which carries on) and a publication made right then - for another
/// object - no longer lists it: A is announced only by the OLDER instance, which is still valid.
fn gen_delisted_session(rng: &mut Rng) -> SenderScn {
    let mut spec = SenderSpec::basic(OtiSpec::new(Scheme::NoCode, 1400, 64, 0, true));
    spec.full_fdt = true;
    spec.interleave = rng.range(1, 3) as u8;
    spec.queues = vec![(0, 1)];
    spec.fdt_carousel = CarouselSpec::DelayMs(*rng.pick(&[20u64, 1000]));
    let scheme = *rng.pick(&[Scheme::Rs28, Scheme::Rs28Us, Scheme::NoCode]);
    let (e, b) = (*rng.pick(&[4u16, 16, 64]), rng.range(2, 5) as u32);
    let parity = if scheme == Scheme::NoCode { 0 } else { rng.range(1, 3) as u32 };
    let mut a = ObjectSpec::basic((rng.range(2, 5) * b as u64 * e as u64) as usize, rng.next_u64(), 0);
    a.oti = Some(OtiSpec::new(scheme, e, b, parity, rng.chance(0.5)));
    let mut bb = ObjectSpec::basic(rng.range(1, 200) as usize, rng.next_u64(), 1);
    bb.oti = Some(OtiSpec::new(Scheme::NoCode, 16, 4, 0, true));
    let k = rng.range(2, 8);
    let ops = vec![
        TimedOp { when: When::AtUs(0), op: Op::Add(0) },
        TimedOp { when: When::AtUs(0), op: Op::Publish },
        TimedOp { when: When::AfterPkt(k), op: Op::Remove(0) },
        TimedOp { when: When::AfterPkt(k), op: Op::Add(1) },
        TimedOp { when: When::AfterPkt(k), op: Op::Publish },
    ];
    let poll = PollSpec { start_us: 0, gap: GapSpec::FixedUs(1000), burst: Some(rng.range(1, 4) as u32), max_polls: 2000, max_pkts: 2000, idle_polls_after_done: 2 };
    SenderScn { spec, objects: vec![a, bb], ops, poll, snapshots: false }
}

fn gen_sampled_session(rng: &mut Rng) -> SenderScn {
    let soti = gen_sender_oti(rng, None);
    let mut spec = SenderSpec::basic(soti);
    spec.interleave = rng.range(1, 4) as u8;
    spec.queues = vec![(0, rng.range(0, 2) as u32)];
    spec.full_fdt = rng.chance(0.6);
    spec.fdt_carousel = CarouselSpec::DelayMs(*rng.pick(&[20u64, 100, 1000]));
    let n = rng.range(1, 2) as usize;
    let mut objects = Vec::new();
    for i in 0..n {
        let scheme = *rng.pick(&Scheme::ALL);
        let e = *rng.pick(&[1u16, 2, 4, 16, 64]);
        let b = if scheme == Scheme::Raptor { rng.range(4, 8) } else { rng.range(1, 8) } as u32;
        let parity = match scheme {
            Scheme::NoCode => 0,
            Scheme::Rs28 | Scheme::Rs28Us => rng.range(1, 4) as u32,
            _ => rng.range(0, 4) as u32,
        };
        let mut oti = OtiSpec::new(scheme, e, b, parity, rng.chance(0.5));
        if matches!(scheme, Scheme::Raptor | Scheme::RaptorQ) && e % 4 == 0 && rng.chance(0.3) {
            oti.al = 4;
        }
        let nblocks = rng.range(1, 5);
        let full = nblocks * b as u64 * e as u64;
        let len = match rng.below(4) {
            0 => full,
            1 => full.saturating_sub(rng.range(1, e as u64 * b as u64)),
            2 => full + 1,
            _ => rng.range(1, full.max(1)),
        } as usize;
        let mut o = ObjectSpec::basic(len, rng.next_u64(), i);
        o.oti = Some(oti);
        o.max_transfer_count = *rng.pick(&[1u32, 1, 2, 3]);
        if rng.chance(0.2) {
            o.cenc = *rng.pick(&[CencSpec::Zlib, CencSpec::Deflate, CencSpec::Gzip]);
            o.inband_cenc = rng.chance(0.5);
            o.kind = *rng.pick(&[ContentKind::Text, ContentKind::Random]);
        }
        o.md5 = rng.chance(0.8);
        objects.push(o);
    }
    let mut ops = Vec::new();
    // (a third of the two-object sessions add and publish the second object later: a second FDT instance, which the
    // receiver may get only after the packets of the object it announces)
    let later = n == 2 && rng.chance(0.5);
    for i in 0..n {
        if !(later && i == 1) {
            ops.push(TimedOp { when: When::AtUs(0), op: Op::Add(i) });
        }
    }
    ops.push(TimedOp { when: When::AtUs(0), op: Op::Publish });
    if later {
        let k = rng.range(1, 12);
        ops.push(TimedOp { when: When::AfterPkt(k), op: Op::Add(1) });
        ops.push(TimedOp { when: When::AfterPkt(k), op: Op::Publish });
    }
    let poll = PollSpec {
        start_us: 0,
        gap: GapSpec::RandomUs { seed: rng.next_u64(), min: 100, max: *rng.pick(&[1_000u64, 50_000, 400_000]) },
        burst: if rng.chance(0.5) { None } else { Some(rng.range(1, 5) as u32) },
        max_polls: 20_000,
        max_pkts: 4_000,
        idle_polls_after_done: *rng.pick(&[0u32, 2, 30]),
    };
    SenderScn { spec, objects, ops, poll, snapshots: false }
}

pub fn gen(idx: u64, tier: Tier, rng: &mut Rng) -> Scn {
    let tiny = tiny_sessions();
    let n_exh = tiny.len() as u64 * CHUNKS_PER_SESSION;
    let mut recv = RecvSpec::basic();
    recv.object_timeout_ms = Some(3_600_000);
    if idx < n_exh {
        let s = (idx / CHUNKS_PER_SESSION) as usize;
        let c = idx % CHUNKS_PER_SESSION;
        return Scn {
            sender: tiny[s].clone(),
            recv,
            loss: Loss::MaskRange {
                lo: c * CHUNK,
                hi: (c + 1) * CHUNK,
                max_n: if tier == Tier::Quick { 12 } else { 16 },
            },
            retime: None,
            clock_offset_s: 0,
            every_first_tx: false,
        };
    }
    let special = rng.below(100);
    let sender = match special {
        0..=1 => gen_many_blocks_session(rng),
        2..=6 => gen_delisted_session(rng),
        _ => gen_sampled_session(rng),
    };
    if special <= 1 {
        // a few packets lost (the first block, one late block), or the first FDT transmission
        let loss = if rng.chance(0.5) {
            Loss::Sampled { p_drop: 0.0003, burst: None, p_dup: 0.0, drop_first_fdt: true }
        } else {
            Loss::Threshold { delta: 0, pref: 0, p_dup: 0.0, drop_first_fdt: rng.chance(0.5) }
        };
        let retime = if rng.chance(0.5) { Some(*rng.pick(&[(500u64, 1000u64), (100, 200), (2000, 1000)])) } else { None };
        return Scn { sender, recv, loss, retime, clock_offset_s: 0, every_first_tx: false };
    }
    recv.md5_check = rng.chance(0.8);
    let loss = if rng.chance(0.5) {
        Loss::Sampled {
            p_drop: rng.log_uniform(0.01, 0.4),
            burst: if rng.chance(0.3) { Some((rng.log_uniform(0.01, 0.2), rng.log_uniform(0.1, 0.6))) } else { None },
            p_dup: if rng.chance(0.5) { rng.log_uniform(0.01, 0.3) } else { 0.0 },
            drop_first_fdt: rng.chance(0.2),
        }
    } else {
        Loss::Threshold {
            delta: *rng.pick(&[0i32, 0, 0, 1, -1]),
            pref: rng.below(3) as u8,
            p_dup: if rng.chance(0.4) { 0.2 } else { 0.0 },
            drop_first_fdt: rng.chance(0.3),
        }
    };
    let retime = if rng.chance(0.2) { Some(*rng.pick(&[(8u64, 1000u64), (50, 5000), (3, 100)])) } else { None };
    let clock_offset_s = if sender.spec.fdt_inband_sct && rng.chance(0.15) { *rng.pick(&[2400i64, -2400, 18_000, -86_400, 31_536_000, -31_536_000]) } else { 0 };
    let mut loss = loss;
    let mut every_first_tx = rng.chance(0.5);
    // sessions with several publications: more often than not the first transmission of every instance is lost
    if sender.ops.iter().filter(|t| t.op == Op::Publish).count() > 1 && rng.chance(0.6) {
        every_first_tx = rng.chance(0.8);
        match &mut loss {
            Loss::Sampled { drop_first_fdt, .. } | Loss::Threshold { drop_first_fdt, .. } => *drop_first_fdt = true,
            _ => {}
        }
    }
    Scn { sender, recv, loss, retime, clock_offset_s, every_first_tx }
}

/// Evaluate one delivered multiset (indices into the trace, order preserved).
fn evaluate(scn: &Scn, ctx: &Ctx, sess: &Session, delivered: &[usize], what: &str) -> Vec<bool> {
    let ep = [scn.sender.spec.endpoint.build()];
    let mut dl = deliveries_in_order(&sess.trace, delivered);
    let mut recv = scn.recv.clone();
    if let Some((to_ms, spacing)) = scn.retime {
        let base = dl.first().map(|d| d.t_us).unwrap_or(0);
        for (k, d) in dl.iter_mut().enumerate() {
            d.t_us = base + k as u64 * spacing;
        }
        recv.object_timeout_ms = Some(to_ms);
        ctx.borrow_mut().count_fault("cleanup-with-object-timeout");
    }
    if scn.clock_offset_s != 0 {
        ctx.borrow_mut().count_fault("clock-skew");
    }
    let mut r = receive(&recv, ctx, &ep, &dl, Default::default(), "r0", if scn.retime.is_some() { 1 } else { 0 }, scn.clock_offset_s * 1_000_000);
    let mut outcome = Vec::new();
    for obj in &sess.objs {
        let (exact, wrong, _failed) = completes_exact(&r.monitor, obj);
        outcome.push(exact > 0);
        if wrong > 0 {
            violate(
                ctx,
                "C02/complete-wrong-bytes",
                "-",
                format!("{}: toi={} reported complete with bytes that differ from the object", what, obj.toi),
            );
        }
        let blocks_ok = blocks_recoverable(&sess.trace, obj, delivered);
        let fdt_at = fdt_recoverable_at(
            sess,
            scn.sender.spec.oti.scheme,
            scn.sender.spec.oti.parity as u64,
            obj.toi,
            delivered,
        );
        // with an object timeout: the object's own packets (and the arrival of its FDT) never pause for half the timeout
        let alive = match (scn.retime, fdt_at) {
            (Some((to_ms, spacing)), Some(f)) => {
                let mut pos: Vec<usize> = delivered.iter().enumerate().filter(|(_, i)| sess.trace.pkts[**i].dec.toi == obj.toi).map(|(k, _)| k).collect();
                pos.push(f);
                pos.sort();
                let ok = |pos: &[usize]| pos.windows(2).all(|w| (w[1] - w[0]) as u64 * spacing * 2 <= to_ms * 1000);
                // (an FDT instance that is being received times out like any other object: the packets of each
                // instance, up to the point where the object's FDT is decodable, must not pause either)
                let mut by_instance: std::collections::BTreeMap<u32, Vec<usize>> = Default::default();
                for (k, i) in delivered.iter().enumerate().take(f + 1) {
                    let p = &sess.trace.pkts[*i];
                    if p.dec.toi == 0 {
                        by_instance.entry(p.dec.fdt.map(|x| x.1).unwrap_or(0)).or_default().push(k);
                    }
                }
                ok(&pos) && by_instance.values().all(|v| ok(v))
            }
            _ => true,
        };
        if !alive {
            ctx.borrow_mut().note("relax:object-may-time-out");
        }
        if blocks_ok && fdt_at.is_some() && alive {
            ctx.borrow_mut().note("precondition-held");
            if exact == 0 {
                // classification from the history
                let close_pos = delivered.iter().position(|i| {
                    let p = &sess.trace.pkts[*i];
                    p.dec.toi == obj.toi && p.dec.close_object
                });
                let last_pkt = *obj.pkts.last().unwrap_or(&0);
                let early_flag = obj
                    .pkts
                    .iter()
                    .any(|i| sess.trace.pkts[*i].dec.close_object && *i != last_pkt);
                let class = if close_pos.map(|c| c < fdt_at.unwrap()).unwrap_or(false) && obj.transfer_len == 0 {
                    "empty-object-before-fdt"
                } else if close_pos.map(|c| c < fdt_at.unwrap()).unwrap_or(false) {
                    "fdt-after-close-object"
                } else if early_flag {
                    "close-flag-before-last-symbol"
                } else {
                    "-"
                };
                violate(
                    ctx,
                    "C02/recoverable-not-delivered",
                    class,
                    format!(
                        "{}: toi={} {:?} E={} ks={:?} parity={} transfer_len={}: every block has enough symbols and an FDT instance listing it is decodable (at delivery {}), yet no complete copy; delivered={:?}",
                        what, obj.toi, obj.scheme, obj.e, obj.ks, obj.parity, obj.transfer_len,
                        fdt_at.unwrap(),
                        delivered.iter().map(|i| {
                            let p = &sess.trace.pkts[*i];
                            format!("{}:{}/{}/{}{}", i, p.dec.toi, p.dec.sbn, p.dec.esi, if p.dec.close_object { "B" } else { "" })
                        }).collect::<Vec<_>>().join(" ")
                    ),
                );
            }
        } else {
            ctx.borrow_mut().note("precondition-not-held");
            if exact > 0 {
                ctx.borrow_mut().note("delivered-beyond-precondition");
            }
        }
    }
    r.run.drop_receiver();
    outcome
}

/// Packets of the first transmission of the first FDT instance - or, with `every_first_tx`, of every instance.
fn first_fdt_transmissions(scn: &Scn, sess: &Session) -> std::collections::BTreeSet<usize> {
    let mut out = std::collections::BTreeSet::new();
    let mut seen = std::collections::BTreeSet::new();
    for (k, t) in sess.txs.iter().enumerate() {
        if seen.insert(t.instance_id) && (k == 0 || scn.every_first_tx) {
            out.extend(t.pkts.iter().copied());
        }
    }
    out
}

pub fn run(scn: &Scn, ctx: &Ctx, scratch: &Path) {
    let sess = match run_sender(&scn.sender, ctx, scratch) {
        Some(s) => s,
        None => return,
    };
    for e in &sess.trace.wire_errors {
        violate(ctx, "C02/wire-discrepancy", "-", e.clone());
    }
    let n = sess.trace.pkts.len();
    if sess.objs.is_empty() || n == 0 {
        return;
    }
    match &scn.loss {
        Loss::MaskRange { lo, hi, max_n } => {
            if n as u32 > *max_n {
                ctx.borrow_mut().note("skip:session-too-long-for-exhaustive");
                return;
            }
            let top = 1u64 << n;
            let mut m = *lo;
            let mut evaluated = 0u64;
            while m < *hi && m < top {
                let delivered: Vec<usize> = (0..n).filter(|i| m & (1 << i) != 0).collect();
                evaluate(scn, ctx, &sess, &delivered, &format!("mask={:#x}/{}", m, n));
                evaluated += 1;
                m += 1;
            }
            if evaluated > 0 {
                let mut c = ctx.borrow_mut();
                c.nontrivial = true;
                c.note_n("exhaustive-masks", evaluated);
                c.count_fault("drop-mask");
            }
        }
        Loss::Sampled { p_drop, burst, p_dup, drop_first_fdt } => {
            let first_tx = first_fdt_transmissions(scn, &sess);
            let mut delivered = Vec::new();
            let mut no_dups = Vec::new();
            let mut bad = false;
            let mut fired = false;
            for i in 0..n {
                let p = &sess.trace.pkts[i];
                if *drop_first_fdt && p.dec.toi == 0 && first_tx.contains(&i) {
                    ctx.borrow_mut().count_fault("drop-class-first-fdt");
                    fired = true;
                    continue;
                }
                if let Some((pe, px)) = burst {
                    if bad {
                        if ctx.borrow_mut().fault("burst-exit/r0", *px) {
                            bad = false;
                        }
                    } else if ctx.borrow_mut().fault("burst-enter/r0", *pe) {
                        bad = true;
                    }
                    if bad {
                        ctx.borrow_mut().count_fault("burst-drop");
                        fired = true;
                        continue;
                    }
                }
                if ctx.borrow_mut().fault("drop/r0", *p_drop) {
                    fired = true;
                    continue;
                }
                delivered.push(i);
                no_dups.push(i);
                if *p_dup > 0.0 && ctx.borrow_mut().fault("duplicate/r0", *p_dup) {
                    delivered.push(i);
                    fired = true;
                }
            }
            let a = evaluate(scn, ctx, &sess, &delivered, "sampled");
            if delivered.len() != no_dups.len() && scn.retime.is_none() {
                // metamorphic: duplicates never change the outcome
                let b = evaluate(scn, ctx, &sess, &no_dups, "sampled-without-duplicates");
                if a != b {
                    violate(
                        ctx,
                        "C02/duplicates-change-outcome",
                        "-",
                        format!("delivered objects with duplicates {:?} vs without {:?}", a, b),
                    );
                }
            }
            if fired && delivered.iter().any(|i| sess.trace.pkts[*i].dec.toi != 0) {
                ctx.borrow_mut().nontrivial = true;
            }
        }
        Loss::Threshold { delta, pref, p_dup, drop_first_fdt } => {
            let first_tx = first_fdt_transmissions(scn, &sess);
            let mut keep = vec![true; n];
            if *drop_first_fdt && sess.txs.len() > 1 {
                for i in first_tx.iter() {
                    keep[*i] = false;
                }
                ctx.borrow_mut().count_fault("drop-class-first-fdt");
            }
            for obj in &sess.objs {
                for (sbn, k) in obj.ks.iter().enumerate() {
                    // distinct ESIs of this block on the wire (first occurrence each)
                    let mut by_esi: std::collections::BTreeMap<u32, Vec<usize>> = Default::default();
                    for i in &obj.pkts {
                        let p = &sess.trace.pkts[*i];
                        if p.dec.sbn == sbn as u32 {
                            by_esi.entry(p.dec.esi).or_default().push(*i);
                        }
                    }
                    let mut esis: Vec<u32> = by_esi.keys().copied().collect();
                    let target = (*k as i64 + *delta as i64).clamp(0, esis.len() as i64) as usize;
                    // order of preference for survivors
                    match pref {
                        1 => {}
                        2 => esis.reverse(),
                        _ => {
                            // seeded shuffle via the tape
                            for j in (1..esis.len()).rev() {
                                let r = ctx.borrow_mut().pick("threshold-shuffle", j as u64 + 1) as usize;
                                esis.swap(j, r);
                            }
                        }
                    }
                    for (rank, e) in esis.iter().enumerate() {
                        if rank >= target {
                            for i in &by_esi[e] {
                                keep[*i] = false;
                            }
                        }
                    }
                    ctx.borrow_mut().count_fault("drop-class-threshold");
                }
            }
            let mut delivered = Vec::new();
            for i in 0..n {
                if keep[i] {
                    delivered.push(i);
                    if *p_dup > 0.0 && ctx.borrow_mut().fault("duplicate/r0", *p_dup) {
                        delivered.push(i);
                    }
                }
            }
            evaluate(scn, ctx, &sess, &delivered, &format!("threshold k{:+} pref={}", delta, pref));
            ctx.borrow_mut().nontrivial = true;
        }
    }
}

impl Prop for C02 {
    fn id(&self) -> &'static str {
        "C02"
    }
    fn info(&self) -> PropInfo {
        PropInfo {
            level: "fault_enumeration",
            rule: "part 1: for a grid of tiny sessions (5 FEC schemes x {1 block, 2 equal, 2 unequal blocks} x interleave {1,2} x in-band/FDT-only OTI x 1-2 transfers) EVERY loss subset of the session's packets is delivered to a fresh receiver (all 2^n masks, n<=12 quick / n<=16 thorough, order preserved); part 2: seeded sessions under iid/burst loss, adjacent duplication, first-FDT-transmission loss and per-block threshold patterns (exactly k, k-1, k+1 survivors; source-first / repair-first / mixed). Oracle: the harness computes the property's own precondition from the delivered multiset and requires a complete, byte-exact copy when it holds; duplicates must not change the outcome. A run is non-trivial when a fault fired and object packets were delivered; distinct = distinct abstract event signatures.",
            assumptions: vec![
                "harness RFC decoder, FDT reader and RFC 5052 partition reference are correct",
                "precondition for non-MDS codes (No-Code, Raptor, RaptorQ) is 'all k source symbols' as the property states; deliveries beyond the precondition are allowed (one-sided oracle)",
            ],
            real: vec!["Sender and everything below", "MultiReceiver/Receiver and everything below (all FEC decoders)"],
            stub: vec!["network (order-preserving lossy/duplicating channel)", "clocks", "application", "monitoring object writer"],
        }
    }
    fn runs(&self, tier: Tier) -> u64 {
        let exh = tiny_sessions().len() as u64 * CHUNKS_PER_SESSION;
        exh + match tier {
            Tier::Quick => 20_000,
            Tier::Thorough => 200_000,
        }
    }
    fn generate(&self, idx: u64, tier: Tier, rng: &mut Rng) -> Value {
        serde_json::to_value(gen(idx, tier, rng)).unwrap()
    }
    fn run(&self, scn: &Value, ctx: &Ctx, scratch: &Path) {
        match serde_json::from_value::<Scn>(scn.clone()) {
            Ok(s) => run(&s, ctx, scratch),
            Err(e) => ctx.borrow_mut().note(&format!("bad-scenario:{}", e)),
        }
    }
    fn exhaustive(&self, tier: Tier) -> Option<String> {
        Some(format!(
            "all 2^n loss subsets of each of {} tiny sessions with n <= {} packets",
            tiny_sessions().len(),
            if tier == Tier::Quick { 12 } else { 16 }
        ))
    }
    fn shrink(&self, scn: &Value) -> Vec<Value> {
        let s: Scn = match serde_json::from_value(scn.clone()) {
            Ok(s) => s,
            Err(_) => return vec![],
        };
        let mut out = Vec::new();
        if let Loss::MaskRange { lo, hi, max_n } = &s.loss {
            if hi - lo > 1 {
                let mid = lo + (hi - lo) / 2;
                let mut a = s.clone();
                a.loss = Loss::MaskRange { lo: *lo, hi: mid, max_n: *max_n };
                out.push(a);
                let mut b = s.clone();
                b.loss = Loss::MaskRange { lo: mid, hi: *hi, max_n: *max_n };
                out.push(b);
            }
            return out.into_iter().map(|s| serde_json::to_value(s).unwrap()).collect();
        }
        for c in shrink_sender_scn(&s.sender) {
            let mut n = s.clone();
            n.sender = c;
            out.push(n);
        }
        out.into_iter().map(|s| serde_json::to_value(s).unwrap()).collect()
    }
}
