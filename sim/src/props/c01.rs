//! C01 — clean channel: each accepted object arrives byte-exact, once, with its metadata.

use super::common::*;
use crate::ctx::{violate, Ctx};
use crate::engine::*;
use crate::fdtview;
use crate::monitor::*;
use crate::rdrv::*;
use crate::rng::Rng;
use crate::sdrv::*;
use crate::spec::*;
use serde::{Deserialize, Serialize};
use serde_json::Value;
use std::path::Path;
use std::rc::Rc;

#[derive(Clone, Debug, PartialEq, Serialize, Deserialize)]
pub struct Scn {
    pub sender: SenderScn,
    pub recv: RecvSpec,
    pub fs_writer: bool,
    /// call cleanup every n pushes (0 = never)
    pub cleanup_every: u32,
    /// every packet is re-encoded by the harness encoder into another legal form before it is pushed (wire::reencode)
    #[serde(default)]
    pub reencode: u8,
}

pub struct C01;

pub fn gen(rng: &mut Rng, tier: Tier) -> Scn {
    if rng.chance(0.008) {
        // one object with many source blocks (SBNs beyond 8 bits, beyond what the receiver preallocates)
        let sender = super::c08::gen_many_blocks(rng);
        let mut recv = RecvSpec::basic();
        recv.md5_check = true;
        recv.object_timeout_ms = Some(3_600_000);
        return Scn { sender, recv, fs_writer: false, cleanup_every: 0, reencode: 0 };
    }
    let max_symbols = if tier == Tier::Quick { 300 } else { 1500 };
    let tiny_fdt = rng.chance(0.1);
    let soti = if tiny_fdt {
        let mut o = gen_obj_oti(rng, None);
        o.e = o.e.max(16);
        if o.scheme == Scheme::Raptor {
            // a Raptor FDT needs one block of >= 4 symbols (blocks of 2 or 3 symbols are refused)
            o.b = 64;
            o.e = o.e.min(64);
        }
        o
    } else {
        gen_sender_oti(rng, None)
    };
    let spec = gen_sender_spec(rng, soti);
    let n = *rng.pick(&[1usize, 1, 1, 2, 2, 3, 4, 6]);
    let mut objects = Vec::new();
    for i in 0..n {
        let mut o = gen_object(rng, i, &spec, max_symbols / n as u64 + 8);
        if rng.chance(0.25) {
            o.cenc = *rng.pick(&[CencSpec::Zlib, CencSpec::Deflate, CencSpec::Gzip]);
            // (a content-encoded object from a stream is handed over PRE-ENCODED by the application)
            o.source = match &o.source {
                SourceSpec::Stream(s) | SourceSpec::StreamAt(s, _) | SourceSpec::StreamFailingSeek(s, _) => SourceSpec::PreEncodedStream(s.clone()),
                SourceSpec::File => SourceSpec::Buffer,
                x => x.clone(),
            };
        }
        objects.push(o);
    }
    // an object at the scheme maximum and one above it, when the maximum is small enough to send
    if rng.chance(0.15) {
        let mut o = ObjectSpec::basic(0, rng.next_u64(), objects.len());
        let scheme = *rng.pick(&[Scheme::Rs28, Scheme::RaptorQ, Scheme::NoCode]);
        let oti = match scheme {
            Scheme::Rs28 => OtiSpec::new(Scheme::Rs28, 1, *rng.pick(&[1u32, 2]), 1, rng.chance(0.5)),
            Scheme::RaptorQ => OtiSpec::new(Scheme::RaptorQ, 1, *rng.pick(&[1u32, 2]), 1, rng.chance(0.5)),
            _ => OtiSpec::new(Scheme::NoCode, 1, 1, 0, rng.chance(0.5)),
        };
        if scheme != Scheme::NoCode || tier == Tier::Thorough {
            let max = oti.max_transfer_length() as usize;
            o.len = if rng.chance(0.5) { max } else { max + 1 };
            if rng.chance(0.4) {
                // incompressible content GROWS when it is content-encoded: what counts is the transfer length
                // (content length <= max < transfer length must be refused as well)
                o.cenc = *rng.pick(&[CencSpec::Zlib, CencSpec::Deflate, CencSpec::Gzip]);
                o.len = max.saturating_sub(rng.range(0, 40) as usize);
            }
            o.oti = Some(oti);
            o.prio = spec.queues[0].0;
            objects.push(o);
        }
    }
    let mut ops = Vec::new();
    let late = rng.chance(0.3);
    let n0 = if late { rng.range(1, objects.len() as u64) as usize } else { objects.len() };
    for i in 0..n0 {
        ops.push(TimedOp { when: When::AtUs(0), op: Op::Add(i) });
    }
    ops.push(TimedOp { when: When::AtUs(0), op: Op::Publish });
    for i in n0..objects.len() {
        let k = rng.range(1, 40);
        ops.push(TimedOp { when: When::AfterPkt(k), op: Op::Add(i) });
        ops.push(TimedOp { when: When::AfterPkt(k), op: Op::Publish });
    }
    let gap = match rng.below(4) {
        0 => GapSpec::FixedUs(1000),
        1 => GapSpec::FixedUs(rng.range(1, 200_000)),
        2 => GapSpec::RandomUs { seed: rng.next_u64(), min: 0, max: rng.range(1, 100_000) },
        _ => GapSpec::ListUs(vec![0, 10, 1_000, 50_000, 1_200_000]),
    };
    let poll = PollSpec {
        start_us: 0,
        gap,
        burst: if rng.chance(0.5) { None } else { Some(rng.range(1, 20) as u32) },
        max_polls: 40_000,
        max_pkts: 30_000,
        idle_polls_after_done: 2,
    };
    let mut recv = RecvSpec::basic();
    recv.receive_once = rng.chance(0.7);
    recv.md5_check = rng.chance(0.85);
    recv.object_timeout_ms = Some(3_600_000);
    Scn {
        sender: SenderScn { spec, objects, ops, poll, snapshots: false },
        recv,
        fs_writer: rng.chance(0.15),
        cleanup_every: *rng.pick(&[0u32, 1, 7, 50]),
        reencode: if rng.chance(0.15) { rng.range(1, 15) as u8 } else { 0 },
    }
}

pub fn run(scn: &Scn, ctx: &Ctx, scratch: &Path) {
    let drv = match Driver::new(&scn.sender, ctx, scratch) {
        Ok(d) => d,
        Err(e) => {
            ctx.borrow_mut().note(&format!("sender-build-failed:{}", truncate(&e, 40)));
            return;
        }
    };
    let trace = drv.run(&scn.sender);
    for e in &trace.wire_errors {
        violate(ctx, "C01/wire-discrepancy", "-", e.clone());
    }
    // receiver side
    let dest = scratch.join("dest");
    let monitor = if scn.fs_writer {
        std::fs::remove_dir_all(&dest).ok();
        std::fs::create_dir_all(&dest).ok();
        let fs = Rc::new(
            flute::receiver::writer::ObjectWriterFSBuilder::new(&dest, scn.recv.md5_check).unwrap(),
        );
        Monitor::with_inner(ctx, scn.recv.md5_check, WriterFaults::default(), "r0", fs)
    } else {
        Monitor::new(ctx, scn.recv.md5_check, WriterFaults::default(), "r0")
    };
    let mut rr = RecvRun::new(&scn.recv, ctx, monitor.clone(), false, "r0");
    let ep = scn.sender.spec.endpoint.build();
    let mut obj_pkts = 0u64;
    if scn.reencode != 0 {
        ctx.borrow_mut().count_fault("legal-re-encoding");
    }
    for (i, p) in trace.pkts.iter().enumerate() {
        let other_form = if scn.reencode != 0 { crate::wire::reencode(&p.bytes, scn.reencode) } else { None };
        let ok = rr.push(&ep, other_form.as_deref().unwrap_or(&p.bytes), p.t_us);
        if !ok {
            violate(
                ctx,
                "C01/push-rejected",
                "-",
                format!("receiver rejected the sender's own packet {} (toi={} sbn={} esi={})", i, p.dec.toi, p.dec.sbn, p.dec.esi),
            );
        }
        if p.dec.toi != 0 {
            obj_pkts += 1;
        }
        if scn.cleanup_every > 0 && (i as u32 + 1) % scn.cleanup_every == 0 {
            rr.cleanup(p.t_us);
        }
    }
    if obj_pkts > 0 {
        ctx.borrow_mut().nontrivial = true;
    }
    if !trace.finished {
        ctx.borrow_mut().note("relax:sender-run-capped");
        rr.drop_receiver();
        return;
    }
    oracle(scn, ctx, &trace, &monitor, &dest);
    rr.drop_receiver();
    // after the receiver is gone no writer may be left without its terminal call (C09 by-product)
    for w in monitor.state.borrow().writers.iter() {
        for e in &w.protocol_errors {
            violate(ctx, "C01/writer-protocol", "-", format!("toi={} writer {}: {}", w.toi, w.id, e));
        }
    }
    if scn.fs_writer {
        std::fs::remove_dir_all(&dest).ok();
    }
}

fn oracle(scn: &Scn, ctx: &Ctx, trace: &SenderTrace, monitor: &Rc<Monitor>, dest: &Path) {
    let st = monitor.state.borrow();
    let t_min = t0_us();
    let t_max = trace.end_us;
    // transfer lengths as announced by the sender's own FDTs (harness reader)
    let txs = fdtview::fdt_transmissions(&trace.pkts);
    let announced_tl = |toi: u128| -> Option<u64> {
        txs.iter()
            .filter_map(|t| t.doc.as_ref())
            .flat_map(|d| d.files.iter())
            .find(|f| f.toi == toi)
            .and_then(|f| f.transfer_length)
    };
    let mut known_tois = Vec::new();
    for rec in &trace.ops {
        let i = match rec.op {
            Op::Add(i) => i,
            _ => continue,
        };
        let o = &scn.sender.objects[i];
        let oti = o.eff_oti(&scn.sender.spec.oti);
        match &rec.result {
            OpResult::Added(toi) => {
                known_tois.push(*toi);
                let tl = announced_tl(*toi);
                if scn.sender.spec.full_fdt {
                    // the API contract in full-FDT mode: publish after adding
                    let published = trace.ops.iter().any(|r| {
                        r.seq > rec.seq && r.result == OpResult::Published(true)
                    });
                    if !published {
                        ctx.borrow_mut().note("skip:never-published");
                        continue;
                    }
                }
                let tag = defect_tags(o, &scn.sender.spec, tl);
                if let Some(tl) = tl.or(if o.cenc == CencSpec::Null { Some(o.len as u64) } else { None }) {
                    if tl > oti.max_transfer_length() {
                        violate(
                            ctx,
                            "C01/oversize-accepted",
                            &tag,
                            format!(
                                "object {} with transfer length {} accepted although {:?} E={} B={} carries at most {}",
                                i, tl, oti.scheme, oti.e, oti.b, oti.max_transfer_length()
                            ),
                        );
                        continue;
                    }
                }
                let ws: Vec<&WriterRec> = st.writers.iter().filter(|w| w.toi == *toi).collect();
                let complete: Vec<&&WriterRec> =
                    ws.iter().filter(|w| w.terminal == Some(Terminal::Complete)).collect();
                let failed: Vec<&&WriterRec> = ws
                    .iter()
                    .filter(|w| matches!(w.terminal, Some(Terminal::Error) | Some(Terminal::Interrupted)) || w.terminal.is_none())
                    .collect();
                let expected = if scn.recv.receive_once { 1 } else { o.max_transfer_count as usize };
                let content = o.content();
                let no_cache = o.cache == Some(CacheSpec::NoCache);
                if complete.is_empty() {
                    let tag = if tl.is_none() { "never-announced".to_string() } else { tag.clone() };
                    violate(
                        ctx,
                        "C01/not-delivered",
                        &tag,
                        format!(
                            "object {} toi={} len={} {:?} E={} B={} parity={} cenc={:?} transfers={} : no writer completed ({} writers, terminals {:?})",
                            i, toi, o.len, oti.scheme, oti.e, oti.b, oti.parity, o.cenc, o.max_transfer_count,
                            ws.len(), ws.iter().map(|w| w.terminal).collect::<Vec<_>>()
                        ),
                    );
                    continue;
                }
                if no_cache {
                    // flute by design does not remember no-cache objects as completed: >= 1 exact copy
                    if complete.len() != expected || !failed.is_empty() {
                        ctx.borrow_mut().note("relax:no-cache-copy-count");
                        violate(
                            ctx,
                            "C01/copies",
                            "no-cache-redelivery",
                            format!(
                                "no-cache object {} toi={}: {} complete + {} failed writers, expected {}",
                                i, toi, complete.len(), failed.len(), expected
                            ),
                        );
                    }
                } else {
                    if complete.len() != expected {
                        // known design limit: in being-transferred mode an FDT instance emitted
                        // between two transfers of the object does not list it, the receiver then
                        // forgets that it already has the object
                        let mine: Vec<usize> = trace.pkts.iter().filter(|p| p.dec.toi == *toi).map(|p| p.idx).collect();
                        let delisted = complete.len() > expected
                            && !scn.sender.spec.full_fdt
                            && txs.iter().any(|t| {
                                t.first > *mine.first().unwrap_or(&0)
                                    && t.first < *mine.last().unwrap_or(&0)
                                    && t.doc.as_ref().map(|d| !d.files.iter().any(|f| f.toi == *toi)).unwrap_or(false)
                            });
                        let tag = if delisted { "fdt-delisted-between-transfers".to_string() } else { tag.clone() };
                        violate(
                            ctx,
                            "C01/copies",
                            &tag,
                            format!(
                                "object {} toi={}: {} complete copies, expected {} (receive_once={}, transfers={})",
                                i, toi, complete.len(), expected, scn.recv.receive_once, o.max_transfer_count
                            ),
                        );
                    }
                    if !failed.is_empty() {
                        violate(
                            ctx,
                            "C01/failed-writer",
                            &tag,
                            format!(
                                "object {} toi={}: {} writer(s) ended in {:?} on a clean channel",
                                i, toi, failed.len(), failed.iter().map(|w| w.terminal).collect::<Vec<_>>()
                            ),
                        );
                    }
                }
                for w in &complete {
                    if w.data != content {
                        let first = w.data.iter().zip(content.iter()).position(|(a, b)| a != b);
                        violate(
                            ctx,
                            "C01/bytes",
                            &tag,
                            format!(
                                "object {} toi={}: complete copy has {} bytes, object {} bytes, first difference at {:?}",
                                i, toi, w.data.len(), content.len(), first
                            ),
                        );
                    }
                    check_meta(ctx, "C01", &tag, w, o, &scn.sender.spec, t_min, t_max);
                }
                if scn.fs_writer && !no_cache {
                    if let Ok(u) = url::Url::parse(&o.location) {
                        let rel = u.path().trim_start_matches('/').to_string();
                        let path = dest.join(&rel);
                        match std::fs::read(&path) {
                            Ok(d) if d == content => {}
                            Ok(d) => violate(
                                ctx,
                                "C01/fs-bytes",
                                &tag,
                                format!("file {:?} holds {} bytes, object has {}", rel, d.len(), content.len()),
                            ),
                            Err(e) => violate(
                                ctx,
                                "C01/fs-missing",
                                &tag,
                                format!("file {:?} under the destination directory: {}", rel, e),
                            ),
                        }
                    }
                }
            }
            OpResult::AddRejected(_) => {
                ctx.borrow_mut().note("add-rejected");
                if o.cenc == CencSpec::Null {
                    let p = crate::wire::partition(oti.b as u64, o.len as u64, oti.e as u64);
                    if (o.len as u64) <= oti.max_transfer_length() && p.3 <= oti.max_blocks() {
                        ctx.borrow_mut().note("add-rejected-within-limits");
                    }
                }
            }
            _ => {}
        }
    }
    for w in st.writers.iter() {
        if !known_tois.contains(&w.toi) {
            violate(
                ctx,
                "C01/spurious-writer",
                "-",
                format!("writer created for toi={} which the sender never announced", w.toi),
            );
        }
        if w.tsi != scn.sender.spec.tsi {
            violate(ctx, "C01/wrong-tsi", "-", format!("writer tsi {} != {}", w.tsi, scn.sender.spec.tsi));
        }
    }
}

impl Prop for C01 {
    fn id(&self) -> &'static str {
        "C01"
    }
    fn info(&self) -> PropInfo {
        PropInfo {
            level: "exploration",
            rule: "seeded swarm scenarios (FEC scheme x E x B x parity x cenc x signalling x publish mode x queues x multiplex x interleave x 1-7 objects at boundary lengths x transfers x receive-once x source kind x writer kind x poll schedule) on a loss-free channel; a run is non-trivial when at least one object packet was delivered; distinct = distinct abstract event-kind signatures of non-trivial runs",
            assumptions: vec![
                "harness RFC decoder, FDT/XML reader and RFC 5052 partition reference are correct (cross-checked against flute's parser on every packet)",
                "hooks H1/H3 only change which clock/map type is used, not logic",
                "flate2 inflates what it deflated",
            ],
            real: vec!["Sender and everything below", "MultiReceiver/Receiver and everything below", "ObjectWriterFS on a scratch directory (15% of runs)"],
            stub: vec!["network (in-order loss-free channel)", "wall and monotonic clocks", "application timeline", "object sources (in-memory stream / temp file)", "monitoring object writer"],
        }
    }
    fn runs(&self, tier: Tier) -> u64 {
        match tier {
            Tier::Quick => 6000,
            Tier::Thorough => 120_000,
        }
    }
    fn generate(&self, _idx: u64, tier: Tier, rng: &mut Rng) -> Value {
        serde_json::to_value(gen(rng, tier)).unwrap()
    }
    fn run(&self, scn: &Value, ctx: &Ctx, scratch: &Path) {
        let scn: Scn = match serde_json::from_value(scn.clone()) {
            Ok(s) => s,
            Err(e) => {
                ctx.borrow_mut().note(&format!("bad-scenario:{}", e));
                return;
            }
        };
        run(&scn, ctx, scratch)
    }
    fn shrink(&self, scn: &Value) -> Vec<Value> {
        let s: Scn = match serde_json::from_value(scn.clone()) {
            Ok(s) => s,
            Err(_) => return vec![],
        };
        let mut out = Vec::new();
        for c in shrink_sender_scn(&s.sender) {
            let mut n = s.clone();
            n.sender = c;
            out.push(n);
        }
        if s.fs_writer {
            let mut n = s.clone();
            n.fs_writer = false;
            out.push(n);
        }
        if s.cleanup_every != 0 {
            let mut n = s.clone();
            n.cleanup_every = 0;
            out.push(n);
        }
        if !s.recv.receive_once {
            let mut n = s.clone();
            n.recv.receive_once = true;
            out.push(n);
        }
        out.into_iter().map(|s| serde_json::to_value(s).unwrap()).collect()
    }
}
