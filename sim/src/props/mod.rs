pub mod c01;
pub mod common;

use crate::engine::Prop;

pub fn all() -> Vec<Box<dyn Prop>> {
    vec![Box::new(c01::C01)]
}
