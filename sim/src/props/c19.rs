//! C19 — FDT expiry: delivery only through an FDT instance unexpired on the sender's clock.

use super::session::*;
use crate::ctx::{violate, Ctx};
use crate::engine::*;
use crate::monitor::*;
use crate::rdrv::*;
use crate::rng::Rng;
use crate::sdrv::*;
use crate::spec::*;
use crate::wire;
use serde::{Deserialize, Serialize};
use serde_json::Value;
use std::path::Path;

#[derive(Clone, Debug, PartialEq, Serialize, Deserialize)]
pub struct Scn {
    pub duration_s: u64,
    pub sct: bool,
    pub check: bool,
    /// receiver wall clock minus true time, seconds (both signs, seconds to decades)
    pub offsets_s: Vec<i64>,
    /// transit delay of the FDT packets (us)
    pub fdt_delay_us: u64,
    /// arrival of the object packets relative to the FDT's arrival (us); negative = object first
    pub obj_gap_us: i64,
    /// receiver wall-clock jump (s) between the two arrivals
    pub jump_s: i64,
    pub scheme: Scheme,
    pub inband: bool,
    pub publish_frac_us: u64,
    /// two FDT instances: the object under test is listed only by the OLDER one, a second object (listed
    /// by the newer instance, published `second_after_us` later) is received promptly
    #[serde(default)]
    pub two_instances: bool,
    #[serde(default)]
    pub second_after_us: u64,
    /// the FDT packets' EXT_TIME is rewritten to its other legal form: SCT-High only (whole seconds)
    #[serde(default)]
    pub sct_high_only: bool,
    /// two instances: the older one has the HIGHER instance id (fdt_start_id = 2^20 - 1, the id wraps)
    #[serde(default)]
    pub id_wrap: bool,
    /// two instances: the newer instance is published after the older one expired, and A's packets arrive in
    /// between (A waits for an FDT when the newer instance, which does not list it, arrives)
    #[serde(default)]
    pub a_before_newer: bool,
    /// single instance: the FDT has several packets, one of its first transmission is lost and the instance
    /// only completes with the carousel repetition this many seconds later (0 = single-packet FDT, no loss)
    #[serde(default)]
    pub fdt_spread_s: u64,
    /// with fdt_spread_s: the packet that completes the instance carries no EXT_TIME (the other packets of the
    /// instance do): the offset observed earlier for this instance still applies
    #[serde(default)]
    pub completing_packet_unstamped: bool,
    /// the FDT packets' EXT_TIME also carries the optional words a foreign sender may add next to the SCT
    /// (bit 0: Expected Residual Time, bit 1: Session Last Changed)
    #[serde(default)]
    pub ext_time_extra: u8,
    /// a session of this many instances (being-transferred mode, one object per instance; 0 = not this family):
    /// the receiver's list of current instances overflows
    #[serde(default)]
    pub many_instances: u8,
    /// without SCT: the FDT packets carry an EXT_TIME that holds no sender current time at all, only a Session Last
    /// Changed word (an hour old) and / or an Expected Residual Time: the receiver's own clock stays uncorrected
    #[serde(default)]
    pub time_ext_without_sct: u8,
    /// single instance, no SCT, clock jump between the arrivals: cleanup() runs at the jump and the FDT packets are
    /// delivered AGAIN (carousel repetition) right before the object - an instance id judged expired once is judged
    /// anew when it arrives again
    #[serde(default)]
    pub fdt_again_after_jump: bool,
    /// object_receive_once = false
    #[serde(default)]
    pub receive_once_off: bool,
    /// fdt_again_after_jump: no cleanup() between the clock jump and the second delivery of the instance
    #[serde(default)]
    pub again_without_cleanup: bool,
    /// fdt_again_after_jump: the second copy of the instance arrives AFTER the packets of the object (which is waiting
    /// for an FDT if the first copy has expired by then), not before them
    #[serde(default)]
    pub again_after_object: bool,
}

/// The datagram as it is delivered: flute's own, or with EXT_TIME re-encoded as SCT-High only.
fn on_wire(scn: &Scn, p: &Emitted) -> Vec<u8> {
    if scn.sct && (scn.sct_high_only || scn.ext_time_extra != 0) && p.dec.toi == 0 && p.dec.sct.is_some() {
        let mut b = wire::to_build(&p.dec);
        b.sct_high_only = scn.sct_high_only;
        if scn.ext_time_extra & 1 != 0 {
            b.sct_ert = Some(7);
        }
        if scn.ext_time_extra & 2 != 0 {
            b.sct_slc = Some(b.sct.map(|s| s.0).unwrap_or(0).wrapping_sub(3));
        }
        wire::encode(&b)
    } else if !scn.sct && scn.time_ext_without_sct != 0 && p.dec.toi == 0 && p.dec.sct.is_none() {
        let mut b = wire::to_build(&p.dec);
        let sec = wire::ntp_of_unix_micros(p.t_us).0;
        if scn.time_ext_without_sct & 1 != 0 {
            b.sct_slc = Some(sec.wrapping_sub(3600));
        }
        if scn.time_ext_without_sct & 2 != 0 {
            b.sct_ert = Some(40);
        }
        wire::encode(&b)
    } else {
        p.bytes.clone()
    }
}

pub struct C19;

pub fn gen(rng: &mut Rng, _tier: Tier) -> Scn {
    let duration_s = *rng.pick(&[5u64, 10, 31, 60, 600, 3600, 86400]);
    // object arrival around the expiry instant, outside the +-2 s band
    let around = duration_s as i64 * 1_000_000;
    let obj_gap_us = match rng.below(6) {
        0 => -(rng.range(1, 3_000_000) as i64),
        1 => rng.range(0, 1_000_000) as i64,
        2 => around - rng.range(2_100_000, 4_000_000) as i64,
        3 => around + rng.range(2_100_000, 10_000_000) as i64,
        4 => around * 3,
        _ => rng.range(0, (around as u64).max(1) * 2) as i64,
    };
    let big = [1i64, 7, 60, 3600, 86_400, 31_536_000, 631_152_000, 946_080_000];
    let mut offsets_s = vec![0i64];
    for _ in 0..rng.range(1, 4) {
        let v = *rng.pick(&big);
        offsets_s.push(if rng.chance(0.5) { v } else { -v });
    }
    // a receiver whose clock was never set: before the UNIX epoch (57 to 100 years behind)
    if rng.chance(0.08) {
        offsets_s.push(-*rng.pick(&[1_800_000_000i64, 1_900_000_000, 2_210_000_000, 3_155_000_000]));
    }
    let check = rng.chance(0.85);
    // Expires = 4294967295 exactly (the largest 32-bit NTP second, 2036-02-07): publish second T0 -> this duration
    let duration_s = if rng.chance(0.03) { 4_294_967_295u64 - 2_208_988_800 - crate::sdrv::t0_us() / 1_000_000 } else { duration_s };
    // with the check disabled expiry is ignored whatever the Expires value is, also one beyond the 32-bit NTP
    // era (2036-02-07), which flute's sender writes for a lifetime of decades
    let duration_s = if !check && rng.chance(0.3) { *rng.pick(&[400_000_000u64, 631_152_000, 3_155_760_000]) } else { duration_s };
    Scn {
        duration_s,
        sct: rng.chance(0.6),
        check,
        offsets_s,
        fdt_delay_us: *rng.pick(&[0u64, 1000, 500_000, 3_000_000, 30_000_000]),
        obj_gap_us,
        jump_s: if rng.chance(0.15) { *rng.pick(&[-3600i64, -10, 10, 3600]) } else { 0 },
        scheme: *rng.pick(&[Scheme::NoCode, Scheme::Rs28, Scheme::RaptorQ]),
        inband: rng.chance(0.5),
        publish_frac_us: rng.range(0, 999_999),
        two_instances: rng.chance(0.3),
        second_after_us: rng.range(1_000, (duration_s * 1_000_000).min(40_000_000)),
        sct_high_only: rng.chance(0.3),
        id_wrap: rng.chance(0.4),
        a_before_newer: rng.chance(0.3),
        fdt_spread_s: if rng.chance(0.2) { *rng.pick(&[3u64, 5, 9]) } else { 0 },
        completing_packet_unstamped: rng.chance(0.4),
        ext_time_extra: if rng.chance(0.3) { rng.range(1, 3) as u8 } else { 0 },
        many_instances: if rng.chance(0.12) { rng.range(9, 24) as u8 } else { 0 },
        time_ext_without_sct: if rng.chance(0.3) { rng.range(1, 3) as u8 } else { 0 },
        fdt_again_after_jump: rng.chance(0.5),
        receive_once_off: rng.chance(0.25),
        again_without_cleanup: rng.chance(0.5),
        again_after_object: rng.chance(0.4),
    }
}

/// The FDT is delivered a second time after the receiver's clock jumped (see `Scn::fdt_again_after_jump`).
fn fdt_again(scn: &Scn, t_f: u64, t_o: u64, lost: bool) -> bool {
    scn.fdt_again_after_jump && !scn.sct && scn.jump_s != 0 && t_f < t_o && !lost
}

/// One receiver run with the given clock offset; returns (complete exact, complete wrong, failed, writers) and the writer trace.
fn receive_with_offset(scn: &Scn, ctx: &Ctx, sess: &Session, offset_s: i64, t_f: u64, lost: Option<(usize, usize)>) -> ((usize, usize, usize), Vec<String>) {
    let mut recv = RecvSpec::basic();
    recv.expiry_check = scn.check;
    recv.receive_once = !scn.receive_once_off;
    recv.object_timeout_ms = Some(1_000_000_000);
    let monitor = Monitor::new(ctx, true, WriterFaults::default(), "r0");
    let mut rr = RecvRun::new(&recv, ctx, monitor.clone(), false, "r0");
    let ep = EndpointSpec::default_ep().build();
    let base = sess.trace.pkts[0].t_us;
    let t_o = (t_f as i64 + scn.obj_gap_us).max(base as i64) as u64;
    // delivery order by arrival time; the FDT first on ties. Every FDT packet has the same transit delay;
    // `lost` (a packet of the first FDT transmission) never arrives, FDT packets emitted after the completing
    // repetition are not needed
    let mut dl: Vec<(u64, bool, &Emitted)> = sess
        .trace
        .pkts
        .iter()
        .filter(|p| Some(p.idx) != lost.map(|l| l.0) && !(p.dec.toi == 0 && (p.t_us + scn.fdt_delay_us > t_f || lost.map(|l| p.idx > l.1).unwrap_or(false))))
        .map(|p| if p.dec.toi == 0 { (p.t_us + scn.fdt_delay_us, false, p) } else { (t_o, true, p) })
        .collect();
    dl.sort_by_key(|x| (x.0, x.1, x.2.idx));
    let second_phase = t_f.max(t_o);
    // the FDT packet that completes the instance (spread variant): the last FDT packet delivered
    let completing = if scn.completing_packet_unstamped && scn.sct { lost.map(|l| l.1) } else { None };
    let again = fdt_again(scn, t_f, t_o, lost.is_some());
    let fdt_pkts: Vec<&Emitted> = dl.iter().filter(|x| !x.1).map(|x| x.2).collect();
    let mut redelivered = false;
    for (t, _, p) in dl {
        let jump = if scn.jump_s != 0 && t >= second_phase && t_f != t_o { scn.jump_s } else { 0 };
        rr.offset_us = (offset_s + jump) * 1_000_000;
        if again && !scn.again_after_object && !redelivered && t >= second_phase {
            // the clock has jumped: housekeeping, then the carousel repetition of the instance, then the object
            redelivered = true;
            if !scn.again_without_cleanup {
                rr.cleanup(t);
            }
            for f in &fdt_pkts {
                rr.push(&ep, &on_wire(scn, f), t);
            }
        }
        if Some(p.idx) == completing {
            let mut b = wire::to_build(&p.dec);
            b.sct = None;
            rr.push(&ep, &wire::encode(&b), t);
        } else {
            rr.push(&ep, &on_wire(scn, p), t);
        }
    }
    if again && scn.again_after_object {
        // the carousel repetition of the instance arrives once the object's packets are in
        let t = second_phase;
        let jump = if scn.jump_s != 0 && t_f != t_o { scn.jump_s } else { 0 };
        rr.offset_us = (offset_s + jump) * 1_000_000;
        if !scn.again_without_cleanup {
            rr.cleanup(t);
        }
        for f in &fdt_pkts {
            rr.push(&ep, &on_wire(scn, f), t);
        }
    }
    let r = completes_exact(&monitor, &sess.objs[0]);
    let trace: Vec<String> = monitor
        .state
        .borrow()
        .writers
        .iter()
        .map(|w| format!("toi={} {:?} {}", w.toi, w.events.iter().map(|e| e.kind).collect::<Vec<_>>(), w.data.len()))
        .collect();
    rr.drop_receiver();
    (r, trace)
}

/// Two instances: A is listed only by the older one and arrives late; B (newer instance) arrives promptly.
fn run_two(scn: &Scn, ctx: &Ctx, scratch: &Path) {
    let mut spec = SenderSpec::basic(OtiSpec::new(Scheme::NoCode, 1400, 64, 0, true));
    spec.fdt_duration_ms = scn.duration_s * 1000;
    spec.fdt_inband_sct = scn.sct;
    spec.full_fdt = false; // being-transferred mode: each instance lists the object in transmission only
    if scn.id_wrap {
        spec.fdt_start_id = 0xFFFFF;
    }
    // (variant) the second object is added once the first instance has expired
    let second_after_us = if scn.a_before_newer { scn.duration_s * 1_000_000 + 6_000_000 } else { scn.second_after_us };
    spec.queues = vec![(0, 1)];
    spec.fdt_carousel = CarouselSpec::DelayMs(1_000_000_000);
    let (b, e) = (4u32, 8u16);
    let mk = |i: usize| {
        let mut o = ObjectSpec::basic(50, 0xC19 + i as u64, i);
        o.oti = Some(OtiSpec::new(scn.scheme, e, b, if scn.scheme == Scheme::NoCode { 0 } else { 1 }, scn.inband));
        o
    };
    let mut poll = PollSpec::simple(1000);
    poll.start_us = scn.publish_frac_us;
    poll.gap = GapSpec::ListUs(vec![second_after_us, 1000, 1000, 1000]);
    poll.idle_polls_after_done = 0;
    let s = SenderScn {
        spec,
        objects: vec![mk(0), mk(1)],
        ops: vec![
            TimedOp { when: When::AtUs(0), op: Op::Add(0) },
            TimedOp { when: When::AtUs(scn.publish_frac_us + second_after_us), op: Op::Add(1) },
        ],
        poll,
        snapshots: false,
    };
    let sess = match run_sender(&s, ctx, scratch) {
        Some(x) => x,
        None => return,
    };
    if sess.objs.len() != 2 {
        return;
    }
    let (toi_a, toi_b) = (sess.objs[0].toi, sess.objs[1].toi);
    // the instance that lists A (and not B)
    let tx_a = match sess.txs.iter().find(|t| t.doc.as_ref().map(|d| d.files.iter().any(|f| f.toi == toi_a)).unwrap_or(false)) {
        Some(t) => t,
        None => return,
    };
    if sess.txs.iter().any(|t| t.first > tx_a.first && t.doc.as_ref().map(|d| d.files.iter().any(|f| f.toi == toi_a)).unwrap_or(false)) {
        ctx.borrow_mut().note("skip:object-relisted");
        return;
    }
    let t_e = sess.trace.pkts[tx_a.first].t_us;
    let expires_us = (t_e / 1_000_000 + scn.duration_s) * 1_000_000;
    let t_f = t_e + scn.fdt_delay_us;
    let t_o = (t_f as i64 + scn.obj_gap_us.max(0)) as u64;
    let last_emit = sess.trace.pkts.last().map(|p| p.t_us).unwrap_or(t_e);
    for off in &scn.offsets_s {
        let mut recv = RecvSpec::basic();
        recv.expiry_check = scn.check;
        recv.receive_once = !scn.receive_once_off;
    recv.receive_once = !scn.receive_once_off;
        recv.object_timeout_ms = Some(1_000_000_000);
        let monitor = Monitor::new(ctx, true, WriterFaults::default(), "r0");
        let mut rr = RecvRun::new(&recv, ctx, monitor.clone(), false, "r0");
        rr.offset_us = off * 1_000_000;
        let ep = EndpointSpec::default_ep().build();
        // everything but A's packets arrives with the FDT transit delay; A's packets arrive at t_o, after all of it
        let t_o_eff = if scn.a_before_newer {
            // after the older instance expired (outside the 2 s band), before the newer one arrives
            t_e + scn.duration_s * 1_000_000 + 3_500_000 + scn.fdt_delay_us.min(1_000_000)
        } else {
            t_o.max(last_emit + scn.fdt_delay_us + 1)
        };
        let mut dl: Vec<(u64, &Emitted)> = sess.trace.pkts.iter().map(|p| if p.dec.toi == toi_a { (t_o_eff, p) } else { (p.t_us + scn.fdt_delay_us, p) }).collect();
        dl.sort_by_key(|x| (x.0, x.1.idx));
        for (t, p) in dl {
            rr.push(&ep, &on_wire(scn, p), t);
        }
        let (exact_a, wrong_a, failed_a) = completes_exact(&monitor, &sess.objs[0]);
        let (exact_b, _, _) = completes_exact(&monitor, &sess.objs[1]);
        rr.drop_receiver();
        let r_o = t_o_eff as i128 + *off as i128 * 1_000_000;
        let est: i128 = if scn.sct { t_e as i128 + (t_o_eff as i128 - t_f as i128) } else { r_o };
        let est_rx: i128 = if scn.sct { t_e as i128 } else { t_f as i128 + *off as i128 * 1_000_000 };
        let allowed = !scn.check || (est <= expires_us as i128 && est_rx <= expires_us as i128);
        let margin = (est - expires_us as i128).abs().min((est_rx - expires_us as i128).abs());
        if wrong_a > 0 {
            violate(ctx, "C19/complete-wrong-bytes", "-", "two instances: complete with wrong bytes".into());
        }
        if scn.check && margin < 2_000_000 {
            ctx.borrow_mut().note("relax:within-2s-of-expiry");
            continue;
        }
        let class = if scn.sct { "two-instances-with-sct" } else { "two-instances-without-sct" };
        if allowed && exact_a == 0 {
            violate(ctx, "C19/unexpired-fdt-not-used", class, format!("offset {} s: object toi={} listed only by the older, still unexpired instance was not delivered", off, toi_a));
        }
        if !allowed && (exact_a > 0 || failed_a > 0) {
            violate(
                ctx,
                if exact_a > 0 { "C19/delivered-through-expired-fdt" } else { "C19/failed-through-expired-fdt" },
                class,
                format!(
                    "offset {} s, duration {} s: object toi={} is listed only by an instance that expired {:.3} s earlier on the estimated sender clock (a newer instance listing toi={} is still valid), yet {} complete / {} failed writers",
                    off, scn.duration_s, toi_a, (est.max(est_rx) - expires_us as i128) as f64 / 1e6, toi_b, exact_a, failed_a
                ),
            );
        }
        // the promptly received object of the newer instance is delivered unless its own instance is expired
        let _ = exact_b;
    }
    let mut c = ctx.borrow_mut();
    c.nontrivial = true;
    c.count_fault("delay");
    if scn.offsets_s.iter().any(|o| *o != 0) {
        c.count_fault("clock-skew");
    }
    c.note("two-instance-runs");
}

/// A session of many instances (one object each): the receiver keeps a bounded list of current instances.
fn run_many(scn: &Scn, ctx: &Ctx, scratch: &Path) {
    let n = scn.many_instances as usize;
    let mut spec = SenderSpec::basic(OtiSpec::new(Scheme::NoCode, 1400, 64, 0, true));
    spec.fdt_duration_ms = scn.duration_s * 1000;
    spec.fdt_inband_sct = scn.sct;
    spec.full_fdt = false;
    if scn.id_wrap {
        spec.fdt_start_id = 0xFFFFF - (n as u32 / 2);
    }
    spec.queues = vec![(0, 1)];
    spec.fdt_carousel = CarouselSpec::DelayMs(1_000_000_000);
    let (b, e) = (4u32, 8u16);
    let objects: Vec<ObjectSpec> = (0..n)
        .map(|i| {
            let mut o = ObjectSpec::basic(30 + i, 0xC19 + i as u64, i);
            o.oti = Some(OtiSpec::new(scn.scheme, e, b, if scn.scheme == Scheme::NoCode { 0 } else { 1 }, scn.inband));
            o
        })
        .collect();
    let mut poll = PollSpec::simple(1000);
    poll.start_us = scn.publish_frac_us;
    poll.idle_polls_after_done = 0;
    let s = SenderScn { spec, objects, ops: (0..n).map(|i| TimedOp { when: When::AtUs(0), op: Op::Add(i) }).collect(), poll, snapshots: false };
    let sess = match run_sender(&s, ctx, scratch) {
        Some(x) => x,
        None => return,
    };
    if sess.objs.len() != n {
        return;
    }
    for off in &scn.offsets_s {
        let mut recv = RecvSpec::basic();
        recv.expiry_check = scn.check;
        recv.receive_once = !scn.receive_once_off;
    recv.receive_once = !scn.receive_once_off;
        recv.object_timeout_ms = Some(1_000_000_000);
        let monitor = Monitor::new(ctx, true, WriterFaults::default(), "r0");
        let mut rr = RecvRun::new(&recv, ctx, monitor.clone(), false, "r0");
        rr.offset_us = off * 1_000_000;
        let ep = EndpointSpec::default_ep().build();
        for p in &sess.trace.pkts {
            rr.push(&ep, &on_wire(scn, p), p.t_us + scn.fdt_delay_us);
        }
        for (i, o) in sess.objs.iter().enumerate() {
            let listing: Vec<&crate::fdtview::FdtTx> = sess.txs.iter().filter(|t| t.doc.as_ref().map(|d| d.files.iter().any(|f| f.toi == o.toi)).unwrap_or(false)).collect();
            if listing.len() != 1 {
                continue;
            }
            let t_e = sess.trace.pkts[listing[0].first].t_us;
            let expires_us = ((t_e / 1_000_000 + scn.duration_s) * 1_000_000) as i128;
            let t_o = match sess.trace.pkts.iter().find(|p| p.dec.toi == o.toi) {
                Some(p) => p.t_us,
                None => continue,
            };
            let shift = scn.fdt_delay_us as i128 + *off as i128 * 1_000_000;
            let est_attach: i128 = if scn.sct { t_o as i128 } else { t_o as i128 + shift };
            let est_rx: i128 = if scn.sct { t_e as i128 } else { t_e as i128 + shift };
            let allowed = !scn.check || (est_attach <= expires_us && est_rx <= expires_us);
            let margin = (est_attach - expires_us).abs().min((est_rx - expires_us).abs());
            let (exact, wrong, failed) = completes_exact(&monitor, o);
            if wrong > 0 {
                violate(ctx, "C19/complete-wrong-bytes", "-", "many instances: complete with wrong bytes".into());
            }
            if scn.check && margin < 2_000_000 {
                ctx.borrow_mut().note("relax:within-2s-of-expiry");
                continue;
            }
            let class = if scn.sct { "many-instances-with-sct" } else { "many-instances-without-sct" };
            if allowed && exact == 0 {
                violate(
                    ctx,
                    "C19/unexpired-fdt-not-used",
                    class,
                    format!(
                        "offset {} s, check={}, duration {} s, session of {} instances: object {} (toi={}), listed by instance {} which {}, was not delivered ({} failed writers)",
                        off, scn.check, scn.duration_s, n, i, o.toi, listing[0].instance_id,
                        if scn.check { "is unexpired on the estimated sender clock" } else { "cannot expire (check disabled)" }, failed
                    ),
                );
            }
            if !allowed && (exact > 0 || failed > 0) {
                violate(
                    ctx,
                    if exact > 0 { "C19/delivered-through-expired-fdt" } else { "C19/failed-through-expired-fdt" },
                    class,
                    format!("offset {} s, duration {} s: object {} (toi={}) is listed only by an instance expired by {:.3} s on the estimated sender clock, yet {} complete / {} failed writers", off, scn.duration_s, i, o.toi, (est_attach.max(est_rx) - expires_us) as f64 / 1e6, exact, failed),
                );
            }
        }
        rr.drop_receiver();
    }
    let mut c = ctx.borrow_mut();
    c.nontrivial = true;
    if scn.offsets_s.iter().any(|o| *o != 0) {
        c.count_fault("clock-skew");
    }
    if scn.sct && scn.ext_time_extra != 0 {
        c.count_fault("ext-time-with-ert-slc");
    }
    c.note("many-instance-runs");
}

pub fn run(scn: &Scn, ctx: &Ctx, scratch: &Path) {
    if scn.many_instances > 0 {
        return run_many(scn, ctx, scratch);
    }
    if scn.two_instances {
        return run_two(scn, ctx, scratch);
    }
    let mut spec = SenderSpec::basic(OtiSpec::new(Scheme::NoCode, 1400, 64, 0, true));
    spec.fdt_duration_ms = scn.duration_s * 1000;
    spec.fdt_inband_sct = scn.sct;
    spec.fdt_carousel = CarouselSpec::DelayMs(1_000_000_000);
    if scn.fdt_spread_s > 0 {
        // an FDT of several packets, repeated by its carousel
        spec.oti = OtiSpec::new(Scheme::NoCode, 128, 64, 0, true);
        spec.fdt_carousel = CarouselSpec::DelayMs(scn.fdt_spread_s * 1000);
    }
    let mut o = ObjectSpec::basic(50, 0xC19, 0);
    let (b, e) = (4u32, 8u16);
    o.oti = Some(OtiSpec::new(scn.scheme, e, b, if scn.scheme == Scheme::NoCode { 0 } else { 1 }, scn.inband));
    let mut poll = PollSpec::simple(1000);
    poll.start_us = scn.publish_frac_us;
    poll.idle_polls_after_done = 0;
    if scn.fdt_spread_s > 0 {
        poll.gap = GapSpec::FixedUs(100_000);
        poll.idle_polls_after_done = (scn.fdt_spread_s * 10 + 15) as u32;
    }
    let s = SenderScn {
        spec,
        objects: vec![o],
        ops: vec![TimedOp { when: When::AtUs(0), op: Op::Add(0) }, TimedOp { when: When::AtUs(0), op: Op::Publish }],
        poll,
        snapshots: false,
    };
    let sess = match run_sender(&s, ctx, scratch) {
        Some(x) => x,
        None => return,
    };
    if sess.objs.is_empty() || sess.txs.is_empty() {
        return;
    }
    // model (see DESIGN 4.C19): the sender-clock estimate at the moment the object is attached
    let t_e0 = sess.trace.pkts[0].t_us; // publish = emission instant of the first FDT packet
    let expires_us = (t_e0 / 1_000_000 + scn.duration_s) * 1_000_000;
    // (t_e, lost): the emission instant (= SCT) of the FDT packet that completes the instance at the receiver
    let (t_e, lost) = if scn.fdt_spread_s > 0 {
        // the second packet of the first transmission is lost; its copy in the repetition completes the instance
        let first = &sess.txs[0];
        let lost_idx = match first.pkts.get(1) {
            Some(i) => *i,
            None => {
                ctx.borrow_mut().note("skip:fdt-has-one-packet");
                return;
            }
        };
        let (ls, le) = (sess.trace.pkts[lost_idx].dec.sbn, sess.trace.pkts[lost_idx].dec.esi);
        match sess.trace.pkts.iter().find(|p| p.idx > first.last && p.dec.toi == 0 && p.dec.fdt.map(|f| f.1) == Some(first.instance_id) && p.dec.sbn == ls && p.dec.esi == le) {
            Some(p) => (p.t_us, Some((lost_idx, p.idx))),
            None => {
                ctx.borrow_mut().note("skip:fdt-not-repeated-in-the-recording");
                return;
            }
        }
    } else {
        (t_e0, None)
    };
    let t_f = t_e + scn.fdt_delay_us;
    let t_o = (t_f as i64 + scn.obj_gap_us).max(t_e0 as i64) as u64;
    let attach_true = t_f.max(t_o); // the object is attached when both have arrived
    let mut traces: Vec<(i64, Vec<String>)> = Vec::new();
    for off in &scn.offsets_s {
        let jump_us = if scn.jump_s != 0 && t_f != t_o { scn.jump_s * 1_000_000 } else { 0 };
        // receiver clock readings
        let r_f = t_f as i128 + *off as i128 * 1_000_000 + if t_f >= attach_true && t_f != t_o { jump_us as i128 } else { 0 };
        let r_attach = attach_true as i128 + *off as i128 * 1_000_000 + jump_us as i128;
        let est_at_attach: i128 = if scn.sct { r_attach - (r_f - t_e as i128) } else { r_attach };
        // without SCT the instance must also be unexpired when it is received
        let est_at_reception: i128 = if scn.sct { t_e as i128 } else { r_f };
        let mut margin = (est_at_attach - expires_us as i128).abs().min((est_at_reception - expires_us as i128).abs());
        let mut allowed = !scn.check || (est_at_attach <= expires_us as i128 && est_at_reception <= expires_us as i128);
        if fdt_again(scn, t_f, t_o, lost.is_some()) {
            ctx.borrow_mut().count_fault("fdt-redelivered-after-clock-jump");
            if scn.again_after_object {
                // the copy that follows the object's packets: a first copy judged expired leaves no expectation, a first
                // copy received valid leaves the usual one (first reception and attach instant)
                if scn.check && est_at_reception > expires_us as i128 {
                    ctx.borrow_mut().note("relax:second-copy-after-the-object");
                    let _ = receive_with_offset(scn, ctx, &sess, *off, t_f, lost);
                    continue;
                }
            } else if !scn.again_without_cleanup {
                // the instance arrives a second time right before the object, on the jumped clock: that reception counts
                margin = (est_at_attach - expires_us as i128).abs();
                allowed = !scn.check || est_at_attach <= expires_us as i128;
            } else if scn.check && est_at_reception > expires_us as i128 {
                // without housekeeping in between, whether an instance id once judged expired is judged anew is not
                // specified (flute forgets the verdict at the next cleanup()): no expectation
                ctx.borrow_mut().note("relax:expired-verdict-kept-until-cleanup");
                let _ = receive_with_offset(scn, ctx, &sess, *off, t_f, lost);
                continue;
            }
            // (second copy of an instance received valid the first time: the first reception and the attach instant count)
        }
        let ((exact, wrong, failed), tr) = receive_with_offset(scn, ctx, &sess, *off, t_f, lost);
        traces.push((*off, tr));
        if wrong > 0 {
            violate(ctx, "C19/complete-wrong-bytes", "-", format!("offset {} s: complete with wrong bytes", off));
        }
        if scn.check && margin < 2_000_000 {
            ctx.borrow_mut().note("relax:within-2s-of-expiry");
            continue;
        }
        let class = if scn.sct { "with-sct" } else { "without-sct" };
        if allowed && exact == 0 {
            violate(
                ctx,
                "C19/unexpired-fdt-not-used",
                class,
                format!(
                    "receiver clock offset {} s, check={}, duration {} s: the estimate of the sender clock when the object is attached is {:.3} s {} Expires, yet the object was not delivered ({} failed writers)",
                    off, scn.check, scn.duration_s, (est_at_attach - expires_us as i128).abs() as f64 / 1e6,
                    if est_at_attach <= expires_us as i128 { "before" } else { "after" }, failed
                ),
            );
        }
        if !allowed && (exact > 0 || failed > 0) {
            violate(
                ctx,
                if exact > 0 { "C19/delivered-through-expired-fdt" } else { "C19/failed-through-expired-fdt" },
                class,
                format!(
                    "receiver clock offset {} s, duration {} s, fdt delay {} us, object gap {} us, jump {} s: the instance is expired on the estimated sender clock by {:.3} s when the object could be attached, yet {} complete / {} failed writers",
                    off, scn.duration_s, scn.fdt_delay_us, scn.obj_gap_us, scn.jump_s,
                    (est_at_attach.max(est_at_reception) - expires_us as i128) as f64 / 1e6, exact, failed
                ),
            );
        }
    }
    // metamorphic: with SCT a constant skew never changes the writer trace
    if scn.sct {
        for (off, tr) in &traces[1..] {
            if *tr != traces[0].1 {
                violate(
                    ctx,
                    "C19/skew-changes-outcome",
                    "-",
                    format!("with the sender-current-time extension the writer trace differs between receiver clock offsets {} s and {} s: {:?} vs {:?}", traces[0].0, off, traces[0].1, tr),
                );
            }
        }
    }
    let mut c = ctx.borrow_mut();
    c.nontrivial = true;
    if scn.offsets_s.iter().any(|o| *o != 0) {
        c.count_fault("clock-skew");
    }
    if scn.jump_s != 0 {
        c.count_fault("clock-jump");
    }
    if scn.sct && scn.sct_high_only {
        c.count_fault("ext-time-sct-high-only");
    }
    if scn.sct && scn.ext_time_extra != 0 {
        c.count_fault("ext-time-with-ert-slc");
    }
    if !scn.sct && scn.time_ext_without_sct != 0 {
        c.count_fault("ext-time-without-sct");
    }
    if lost.is_some() {
        c.count_fault("drop-fdt-packet-completed-by-repetition");
    }
    if scn.fdt_delay_us > 0 || scn.obj_gap_us != 0 {
        c.count_fault("delay");
    }
}

impl Prop for C19 {
    fn id(&self) -> &'static str {
        "C19"
    }
    fn info(&self) -> PropInfo {
        PropInfo {
            level: "exploration",
            rule: "seeded scenarios: FDT durations 5 s - 1 day x sender-current-time extension present/absent x expiry check on/off x receiver wall-clock offsets (0 and 1-3 of +-{1 s, 7 s, 1 min, 1 h, 1 day, 1 y, 20 y, 30 y}) x transit delay of the FDT (0 - 30 s) x arrival of the object relative to the FDT (before it, right after it, around the expiry instant outside the +-2 s band, long after) x receiver clock jump between the two arrivals x FEC scheme x in-band/FDT-only OTI. Oracle: expiry model on the estimated sender clock (offset taken from the SCT at FDT reception: the FDT's own transit delay is absorbed); delivery iff the instance is unexpired (or the check is off); an object announced only by an expired instance gets neither complete nor error; metamorphic: with SCT the writer trace is identical for every constant offset. Non-trivial: every run.",
            assumptions: vec!["+-2 s around the expiry instant is excluded as the property states", "a clock jump between FDT reception and object attachment is modelled (the estimate follows the receiver clock)"],
            real: vec!["Sender (FDT with/without EXT_TIME)", "MultiReceiver/Receiver/FdtReceiver expiry logic"],
            stub: vec!["receiver wall clock (offset, jump)", "transit delays", "monitoring writer"],
        }
    }
    fn runs(&self, tier: Tier) -> u64 {
        match tier {
            Tier::Quick => 60_000,
            Tier::Thorough => 250_000,
        }
    }
    fn generate(&self, _idx: u64, tier: Tier, rng: &mut Rng) -> Value {
        serde_json::to_value(gen(rng, tier)).unwrap()
    }
    fn run(&self, scn: &Value, ctx: &Ctx, scratch: &Path) {
        match serde_json::from_value::<Scn>(scn.clone()) {
            Ok(s) => run(&s, ctx, scratch),
            Err(e) => ctx.borrow_mut().note(&format!("bad-scenario:{}", e)),
        }
    }
    fn shrink(&self, scn: &Value) -> Vec<Value> {
        let s: Scn = match serde_json::from_value(scn.clone()) {
            Ok(s) => s,
            Err(_) => return vec![],
        };
        let mut out = Vec::new();
        let mut push = |f: &dyn Fn(&mut Scn)| {
            let mut n = s.clone();
            f(&mut n);
            if n != s {
                out.push(n);
            }
        };
        push(&|n| n.jump_s = 0);
        push(&|n| n.sct_high_only = false);
        push(&|n| n.ext_time_extra = 0);
        push(&|n| n.time_ext_without_sct = 0);
        push(&|n| n.fdt_again_after_jump = false);
        push(&|n| n.receive_once_off = false);
        push(&|n| n.again_after_object = false);
        push(&|n| n.many_instances = if n.many_instances > 11 { 11 } else { n.many_instances });
        push(&|n| n.id_wrap = false);
        push(&|n| n.a_before_newer = false);
        push(&|n| n.fdt_spread_s = 0);
        push(&|n| n.completing_packet_unstamped = false);
        push(&|n| n.fdt_delay_us = 0);
        push(&|n| n.scheme = Scheme::NoCode);
        push(&|n| n.inband = true);
        push(&|n| n.publish_frac_us = 0);
        push(&|n| n.two_instances = false);
        push(&|n| {
            if n.offsets_s.len() > 2 {
                n.offsets_s.pop();
            }
        });
        out.into_iter().map(|s| serde_json::to_value(s).unwrap()).collect()
    }
}
