//! C05 — the filesystem writer never touches anything outside its destination directory.
//!
//! Input-heavy, but which filesystem operations run (create dirs, create/truncate, write, flush,
//! DELETE) is decided by the session outcome, and the error / interrupted / dropped outcomes only
//! exist under injected faults: every location string is delivered through four simulated sessions.

use crate::ctx::{violate, Ctx};
use crate::engine::*;
use crate::rng::Rng;
use crate::sdrv::t0_us;
use crate::spec::*;
use crate::wire::{self, Build, Fti};
use serde::{Deserialize, Serialize};
use serde_json::Value;
use std::collections::BTreeMap;
use std::path::{Path, PathBuf};
use std::rc::Rc;

#[derive(Clone, Debug, PartialEq, Serialize, Deserialize)]
pub struct Scn {
    /// location strings; "{JAIL}" is replaced by the absolute path of the jail root
    pub locations: Vec<String>,
    /// outcomes to produce for each: 0 complete, 1 error (timeout), 2 interrupted, 3 receiver dropped
    pub outcomes: Vec<u8>,
    pub md5_check: bool,
}

pub struct C05;

const PREFIXES: [&str; 9] = ["file:///", "file://host/", "http://h/", "x:", "x:/", "x://h/", "", "/", "//"];
const SEGMENTS: [&str; 8] = ["name", ".", "..", "", "%2e%2e", "..%2f", "a\\..\\b", "{JAIL}/l1/abs"];
const CHUNK: u64 = 48;

fn grammar_size(depth: u32) -> u64 {
    let mut per_prefix = 0u64;
    for d in 1..=depth {
        per_prefix += 8u64.pow(d);
    }
    PREFIXES.len() as u64 * per_prefix
}

fn nth_string(mut k: u64, depth: u32) -> String {
    let mut per_prefix = 0u64;
    for d in 1..=depth {
        per_prefix += 8u64.pow(d);
    }
    let p = (k / per_prefix) as usize % PREFIXES.len();
    k %= per_prefix;
    let mut d = 1;
    loop {
        let n = 8u64.pow(d);
        if k < n {
            break;
        }
        k -= n;
        d += 1;
    }
    let mut segs = Vec::new();
    for _ in 0..d {
        segs.push(SEGMENTS[(k % 8) as usize]);
        k /= 8;
    }
    format!("{}{}", PREFIXES[p], segs.join("/"))
}

pub fn gen(idx: u64, rng: &mut Rng, tier: Tier) -> Scn {
    let depth = if tier == Tier::Quick { 3 } else { 5 };
    let total = grammar_size(depth);
    let chunks = (total + CHUNK - 1) / CHUNK;
    if idx < chunks {
        let lo = idx * CHUNK;
        let hi = ((idx + 1) * CHUNK).min(total);
        return Scn { locations: (lo..hi).map(|k| nth_string(k, depth)).collect(), outcomes: vec![0, 1, 2, 3], md5_check: idx % 2 == 0 };
    }
    // seeded random strings
    let alphabet: Vec<&str> = vec![
        "a", "b", ".", "..", "/", "//", "\\", ":", "%2e", "%2f", "%5c", "%00", "~", " ", "?", "#", "file:", "http:", "x:", "@", "{JAIL}", "l1", "dest", "c0", "é", "\t", "..;", "...", "C:", "-",
        // backslash-separated dot segments (one path component on Linux), siblings whose name starts like the destination
        "\\..", "..\\", "a\\..\\..\\", "\\..\\..\\name", "x://h/", "../dest-old/victim", "../dest.log", "dest-old", "x:..\\..\\",
        // dot segments disguised by characters some layer strips or refuses (tab / newline removed by URL parsing,
        // characters a "portable file name" filter drops)
        ".\t.", ".\n.", ".\r.", "x:.\t./", "*..", "..:", ".|.", "..?", "<..>", "\"..", "..*/", "/*../",
    ];
    let n = 24;
    let mut locations = Vec::new();
    // the other components of a URL (query, fragment, parameters, user info, port) carrying path material
    let seps = ["?", "#", "?/", "#/", "?q=", "?q=1/", ";", ";/", "?a#", "%3F/", "?/../#/"];
    let tails = ["*..", "..:", ".|.", ".\t.", "..", "..", "..", "name", ".", "", "victim.txt", "c6", "dest-old/victim", "dest.log", "%2e%2e", "{JAIL}/l1/abs", "l6/c6"];
    for k in 0..n {
        if k % 2 == 1 {
            let mut s = String::new();
            s.push_str(*rng.pick(&PREFIXES[..]));
            if rng.chance(0.3) {
                // path only: 1-4 segments of path material (plain and disguised dot segments, canary names)
                let nt = rng.range(1, 5);
                for i in 0..nt {
                    if i > 0 {
                        s.push('/');
                    }
                    s.push_str(*rng.pick(&tails[..]));
                }
                locations.push(s);
                continue;
            }
            if rng.chance(0.15) {
                s.push_str(*rng.pick(&["u:p@h/", "..@h/", "h:80/", "[::1]/", "h/..:1/"]));
            }
            let np = rng.range(0, 2);
            for i in 0..np {
                if i > 0 {
                    s.push('/');
                }
                s.push_str(*rng.pick(&["name", "name", "a", ".", "..", "seg.m4s", "*..", "..:", ".|.", ".\t.", ".\n."]));
            }
            s.push_str(*rng.pick(&seps[..]));
            let nt = rng.range(1, 5);
            for i in 0..nt {
                if i > 0 {
                    s.push('/');
                }
                s.push_str(*rng.pick(&tails[..]));
            }
            locations.push(s);
            continue;
        }
        let len = rng.range(1, 12);
        let mut s = String::new();
        for _ in 0..len {
            s.push_str(*rng.pick(&alphabet[..]));
        }
        locations.push(s);
    }
    Scn { locations, outcomes: vec![0, 1, 2, 3], md5_check: rng.chance(0.5) }
}

type Tree = BTreeMap<PathBuf, Option<Vec<u8>>>;

fn snapshot(root: &Path, skip: &Path, out: &mut Tree) {
    if let Ok(rd) = std::fs::read_dir(root) {
        for e in rd.flatten() {
            let p = e.path();
            if p == skip {
                // what is inside the destination is the writer's business, the destination itself must stay - a directory
                let is_dir = std::fs::symlink_metadata(&p).map(|m| m.is_dir()).unwrap_or(false);
                out.insert(p.clone(), if is_dir { None } else { Some(std::fs::read(&p).unwrap_or_default()) });
                continue;
            }
            let md = match std::fs::symlink_metadata(&p) {
                Ok(m) => m,
                Err(_) => continue,
            };
            if md.is_dir() {
                out.insert(p.clone(), None);
                snapshot(&p, skip, out);
            } else {
                out.insert(p.clone(), Some(std::fs::read(&p).unwrap_or_default()));
            }
        }
    }
}

fn xml_escape(s: &str) -> String {
    let mut o = String::new();
    for c in s.chars() {
        match c {
            '&' => o.push_str("&amp;"),
            '<' => o.push_str("&lt;"),
            '>' => o.push_str("&gt;"),
            '"' => o.push_str("&quot;"),
            '\t' => o.push_str("&#9;"),
            '\n' => o.push_str("&#10;"),
            '\r' => o.push_str("&#13;"),
            c => o.push(c),
        }
    }
    o
}

#[derive(Serialize, Deserialize, Default)]
struct ChildReport {
    sessions: u64,
    violations: Vec<(String, String, String)>,
    error: Option<String>,
}

/// Everything that touches the filesystem writer runs in a forked child that has chroot()ed into the
/// jail: an escaping location can then not reach the real filesystem, and an absolute path lands in
/// the jail root where the snapshot sees it.
pub fn run(scn: &Scn, ctx: &Ctx, scratch: &Path) {
    let root = scratch.join("jail");
    std::fs::remove_dir_all(&root).ok();
    let mut p = root.clone();
    std::fs::create_dir_all(&p).unwrap();
    std::fs::write(p.join("c0"), b"canary-0").unwrap();
    let mut dest_in_jail = PathBuf::from("/");
    for i in 1..=6 {
        p = p.join(format!("l{}", i));
        dest_in_jail = dest_in_jail.join(format!("l{}", i));
        std::fs::create_dir_all(&p).unwrap();
        std::fs::write(p.join(format!("c{}", i)), format!("canary-{}", i)).unwrap();
    }
    std::fs::write(root.join("l1").join("abs"), b"canary-abs").unwrap();
    std::fs::write(root.join("name"), b"canary-name").unwrap();
    std::fs::write(root.join("abs"), b"canary-abs0").unwrap();
    std::fs::create_dir_all(p.join("dest")).unwrap();
    // siblings whose names START like the destination's (a containment check on strings instead of paths)
    std::fs::create_dir_all(p.join("dest-old")).unwrap();
    std::fs::write(p.join("dest-old").join("victim"), b"canary-sibling").unwrap();
    std::fs::write(p.join("dest.log"), b"canary-log").unwrap();
    dest_in_jail = dest_in_jail.join("dest");

    let mut fds = [0i32; 2];
    if unsafe { libc::pipe(fds.as_mut_ptr()) } != 0 {
        ctx.borrow_mut().note("HARNESS-ERROR:pipe-failed");
        return;
    }
    let pid = unsafe { libc::fork() };
    if pid < 0 {
        ctx.borrow_mut().note("HARNESS-ERROR:fork-failed");
        return;
    }
    if pid == 0 {
        // child
        unsafe { libc::close(fds[0]) };
        let mut rep = ChildReport::default();
        let croot = std::ffi::CString::new(root.to_string_lossy().as_bytes()).unwrap();
        let ok = unsafe { libc::chroot(croot.as_ptr()) } == 0 && std::env::set_current_dir("/").is_ok();
        if !ok {
            rep.error = Some("chroot failed".into());
        } else {
            let r = std::panic::catch_unwind(std::panic::AssertUnwindSafe(|| run_in_jail(scn, &dest_in_jail, &mut rep)));
            if r.is_err() {
                rep.violations.push(("C05/panic".into(), "-".into(), "panic inside the filesystem-writer session".into()));
            }
        }
        let js = serde_json::to_vec(&rep).unwrap_or_default();
        let mut off = 0;
        while off < js.len() {
            let n = unsafe { libc::write(fds[1], js[off..].as_ptr() as *const libc::c_void, js.len() - off) };
            if n <= 0 {
                break;
            }
            off += n as usize;
        }
        unsafe { libc::_exit(0) };
    }
    unsafe { libc::close(fds[1]) };
    let mut buf = Vec::new();
    let mut tmp = [0u8; 65536];
    loop {
        let n = unsafe { libc::read(fds[0], tmp.as_mut_ptr() as *mut libc::c_void, tmp.len()) };
        if n <= 0 {
            break;
        }
        buf.extend_from_slice(&tmp[..n as usize]);
    }
    unsafe { libc::close(fds[0]) };
    let mut status = 0i32;
    unsafe { libc::waitpid(pid, &mut status, 0) };
    std::fs::remove_dir_all(&root).ok();
    let rep: ChildReport = match serde_json::from_slice(&buf) {
        Ok(r) => r,
        Err(_) => {
            violate(ctx, "C05/abort", "-", format!("the jailed session process died without a report (wait status {})", status));
            return;
        }
    };
    // what was observed before the session could not go on is reported first
    for (rule, class, msg) in rep.violations {
        violate(ctx, &rule, &class, msg);
    }
    if let Some(e) = rep.error {
        ctx.borrow_mut().note(&format!("HARNESS-ERROR:{}", e));
        return;
    }
    let mut c = ctx.borrow_mut();
    c.nontrivial = rep.sessions > 0;
    c.note_n("sessions", rep.sessions);
    c.note_n("strings", scn.locations.len() as u64);
    c.count_fault("loss-until-timeout");
    c.count_fault("close-before-complete");
    c.count_fault("crash");
    for l in &scn.locations {
        c.sig(l);
    }
}

fn run_in_jail(scn: &Scn, dest: &Path, rep: &mut ChildReport) {
    let root = PathBuf::from("/");
    let mut before = Tree::new();
    snapshot(&root, dest, &mut before);
    let content: Vec<u8> = (0..40u8).collect();
    let e = 16usize;
    let tsi = 5u64;
    let ep = EndpointSpec::default_ep().build();
    for loc_t in &scn.locations {
        let loc = loc_t.replace("{JAIL}", "");
        for outcome in &scn.outcomes {
            let xml = format!(
                "<?xml version=\"1.0\" encoding=\"UTF-8\"?><FDT-Instance xmlns=\"urn:IETF:metadata:2005:FLUTE:FDT\" Expires=\"4000000000\"><File TOI=\"1\" Content-Location=\"{}\" Content-Length=\"{}\" Transfer-Length=\"{}\" Content-Type=\"t\"/></FDT-Instance>",
                xml_escape(&loc),
                content.len(),
                content.len()
            );
            let mut pkts: Vec<Vec<u8>> = wire::packetise_fdt(xml.as_bytes(), tsi, 1, 1400, None, None);
            let nsym = (content.len() + e - 1) / e;
            for i in 0..nsym {
                let (tl, ol) = wire::field_lens(tsi, 1);
                let last = i + 1 == nsym;
                let skip = match outcome {
                    1 | 3 => last,      // the last symbol never arrives
                    2 => i + 2 == nsym, // a middle symbol is missing when the close flag arrives
                    _ => false,
                };
                if skip {
                    continue;
                }
                pkts.push(wire::encode(&Build {
                    cci_words: 1,
                    tsi,
                    tsi_len: tl,
                    toi: 1,
                    toi_len: ol,
                    cp: 0,
                    close_object: last && *outcome == 2,
                    fti: Some(Fti { fec: 0, transfer_length: content.len() as u64, e: e as u32, b: Some(64), max_n: None, instance_id: None, z: None, n: None, al: None }),
                    sbn: 0,
                    esi: i as u32,
                    payload: content[i * e..((i + 1) * e).min(content.len())].to_vec(),
                    ..Default::default()
                }));
            }
            // half of the sessions start with an EMPTY destination (a failed object is then its only content),
            // the others with what earlier sessions left there
            if (rep.sessions + *outcome as u64) % 2 == 0 {
                std::fs::remove_dir_all(dest).ok();
                std::fs::create_dir_all(dest).ok();
            }
            let builder = match flute::receiver::writer::ObjectWriterFSBuilder::new(dest, scn.md5_check) {
                Ok(b) => Rc::new(b),
                Err(_) => {
                    rep.error = Some("destination directory vanished".into());
                    return;
                }
            };
            let cfg = flute::receiver::Config { object_timeout: Some(std::time::Duration::from_millis(100)), ..Default::default() };
            let mut recv = flute::receiver::MultiReceiver::new(builder, Some(cfg), false);
            let mut t = t0_us();
            for b in &pkts {
                t += 100;
                flute::verif::clock::set(std::time::Duration::from_micros(t - t0_us()));
                flute::verif::reset_loop_budget(crate::rdrv::LOOP_BUDGET);
                let _ = recv.push(&ep, b, systime_us(t));
            }
            if *outcome == 1 {
                // the object timeout elapses, cleanup drops the object in error
                t += 5_000_000;
                flute::verif::clock::set(std::time::Duration::from_micros(t - t0_us()));
                recv.cleanup(systime_us(t));
            }
            drop(recv);
            rep.sessions += 1;
            let mut after = Tree::new();
            snapshot(&root, dest, &mut after);
            if after != before {
                let mut diff = Vec::new();
                for (k, v) in &after {
                    match before.get(k) {
                        None => diff.push(format!("created {}", k.display())),
                        Some(b) if b != v => diff.push(format!("modified {}", k.display())),
                        _ => {}
                    }
                }
                for k in before.keys() {
                    if !after.contains_key(k) {
                        diff.push(format!("deleted {}", k.display()));
                    }
                }
                let what = ["complete", "error(timeout)", "interrupted", "receiver dropped"][*outcome as usize];
                let kind = if diff.iter().any(|d| d.starts_with("deleted")) {
                    "deleted-outside"
                } else if diff.iter().any(|d| d.starts_with("modified")) {
                    "modified-outside"
                } else {
                    "created-outside"
                };
                let class = if loc_t.contains("{JAIL}") || loc.starts_with("//") || loc.contains(":/") && loc.contains("//") {
                    "absolute-path"
                } else if loc.contains("..") {
                    "dot-dot"
                } else {
                    "other"
                };
                rep.violations.push((
                    format!("C05/{}", kind),
                    class.to_string(),
                    format!(
                        "Content-Location {:?} (outcome {}): outside the destination directory {} (jail root = /): {}",
                        loc_t,
                        what,
                        dest.display(),
                        diff.join(", ")
                    ),
                ));
                // undo, so that the next string starts from the same tree
                for (k, v) in &before {
                    // an entry that changed its KIND (the destination directory replaced by a file, a canary by a folder)
                    match (v, after.get(k)) {
                        (None, Some(Some(_))) => {
                            std::fs::remove_file(k).ok();
                            std::fs::create_dir_all(k).ok();
                        }
                        (Some(_), Some(None)) => {
                            std::fs::remove_dir_all(k).ok();
                        }
                        _ => {}
                    }
                }
                for (k, v) in &after {
                    if !before.contains_key(k) {
                        if v.is_some() {
                            std::fs::remove_file(k).ok();
                        }
                    }
                }
                let mut dirs: Vec<&PathBuf> = after.iter().filter(|(k, v)| v.is_none() && !before.contains_key(*k)).map(|(k, _)| k).collect();
                dirs.sort();
                for d in dirs.iter().rev() {
                    std::fs::remove_dir(d).ok();
                }
                let mut gone: Vec<&PathBuf> = before.iter().filter(|(k, v)| v.is_none() && !after.contains_key(*k)).map(|(k, _)| k).collect();
                gone.sort();
                for d in gone {
                    std::fs::create_dir_all(d).ok();
                }
                for (k, v) in &before {
                    if let Some(bytes) = v {
                        if after.get(k) != Some(v) {
                            std::fs::write(k, bytes).ok();
                        }
                    }
                }
            }
            if rep.sessions % 64 == 0 {
                std::fs::remove_dir_all(dest).ok();
                std::fs::create_dir_all(dest).ok();
            }
        }
    }
}

impl Prop for C05 {
    fn id(&self) -> &'static str {
        "C05"
    }
    fn info(&self) -> PropInfo {
        PropInfo {
            level: "fault_enumeration",
            rule: "every Content-Location string of the property's grammar - 9 prefixes (file:///, file://host/, http://h/, x:, x:/, x://h/, none, /, //) x 1..3 (quick) / 1..5 (thorough) segments from {name, ., .., empty, %2e%2e, ..%2f, a\\..\\b, absolute path into the jail} - plus seeded random strings, each delivered to a real MultiReceiver with the real ObjectWriterFSBuilder through FOUR simulated sessions whose outcome is decided by injected faults: complete, error (last symbol lost, object timeout on the simulated clock, cleanup), interrupted (close-object flag while a symbol is missing), receiver dropped mid-object. The FDT is hand-built (the string goes in verbatim, XML-escaped) and packetised by the harness encoder. Oracle: the directory tree around the destination (canary files at every one of the 7 levels above it, plus decoys named like the segments) is byte-identical after every session. Non-trivial: at least one session ran.",
            assumptions: vec!["the jail is 7 levels deep, deeper than the maximum number of '..' segments; absolute candidates only point below the jail root"],
            real: vec!["MultiReceiver/Receiver/ObjectReceiver", "ObjectWriterFSBuilder/ObjectWriterFS on a real scratch filesystem", "url crate"],
            stub: vec!["sender (hand-built FDT and object packets from the harness encoder)", "channel faults deciding the outcome", "clocks"],
        }
    }
    fn runs(&self, tier: Tier) -> u64 {
        let depth = if tier == Tier::Quick { 3 } else { 5 };
        let chunks = (grammar_size(depth) + CHUNK - 1) / CHUNK;
        chunks
            + match tier {
                Tier::Quick => 1500,
                Tier::Thorough => 6000,
            }
    }
    fn generate(&self, idx: u64, tier: Tier, rng: &mut Rng) -> Value {
        serde_json::to_value(gen(idx, rng, tier)).unwrap()
    }
    fn run(&self, scn: &Value, ctx: &Ctx, scratch: &Path) {
        match serde_json::from_value::<Scn>(scn.clone()) {
            Ok(s) => run(&s, ctx, scratch),
            Err(e) => ctx.borrow_mut().note(&format!("bad-scenario:{}", e)),
        }
    }
    fn exhaustive(&self, tier: Tier) -> Option<String> {
        let depth = if tier == Tier::Quick { 3 } else { 5 };
        Some(format!("all {} strings of the prefix x segment grammar up to depth {} x 4 session outcomes", grammar_size(depth), depth))
    }
    fn shrink(&self, scn: &Value) -> Vec<Value> {
        let s: Scn = match serde_json::from_value(scn.clone()) {
            Ok(s) => s,
            Err(_) => return vec![],
        };
        let mut out = Vec::new();
        if s.locations.len() > 1 {
            let h = s.locations.len() / 2;
            out.push(Scn { locations: s.locations[..h].to_vec(), outcomes: s.outcomes.clone(), md5_check: s.md5_check });
            out.push(Scn { locations: s.locations[h..].to_vec(), outcomes: s.outcomes.clone(), md5_check: s.md5_check });
        }
        if s.outcomes.len() > 1 {
            for o in &s.outcomes {
                out.push(Scn { locations: s.locations.clone(), outcomes: vec![*o], md5_check: s.md5_check });
            }
        }
        out.into_iter().map(|s| serde_json::to_value(s).unwrap()).collect()
    }
}
