//! C17 — receiver memory is bounded by configuration, not by traffic.

use super::session::*;
use crate::alloc;
use crate::ctx::{violate, Ctx};
use crate::engine::*;
use crate::monitor::*;
use crate::rdrv::*;
use crate::rng::Rng;
use crate::sdrv::*;
use crate::spec::*;
use crate::wire::{self, Build, Fti};
use serde::{Deserialize, Serialize};
use serde_json::Value;
use std::path::Path;

#[derive(Clone, Copy, Debug, PartialEq, Serialize, Deserialize)]
pub enum Kind {
    /// in-band FTI, the FDT never arrives: blocks decode but cannot be written
    NoFdtInband,
    /// FDT-only OTI, the FDT never arrives: packets are cached
    NoFdtCached,
    /// FDT present, one source symbol of every block missing (No-Code): blocks never complete
    MissingSymbol,
    /// thousands of TOIs that never complete
    ManyTois,
    /// thousands of FDT instance ids that never complete
    ManyFdtIds,
    /// thousands of sessions (TSIs)
    ManySessions,
    /// FDT-only OTI, the FDT never arrives, packets with an empty / tiny payload (header-only datagrams)
    NoFdtCachedTinyPayload,
    /// objects stalled by a missing symbol while NEW FDT instances keep arriving more often than the object timeout
    StalledWithFdtUpdates,
    /// thousands of FDT instances (distinct ids) that are complete but already expired when they arrive
    ExpiredFdtInstances,
    /// Reed-Solomon under-specified packets of ONE object whose source block numbers rise by steps of up to 4096 (tiny
    /// blocks of one symbol): the list of blocks an object may hold is bounded in total, not per packet
    SparseBlockNumbers,
    /// thousands of VALID single-packet FDT instances (distinct ids, each announcing another TOI), every one received
    /// twice (carousel repetition): only a bounded number of instances is current
    RepeatedValidFdtInstances,
    /// many objects that lose a symbol but whose close-object packet arrives (they end interrupted)
    InterruptedObjects,
    /// Reed-Solomon under-specified (scheme 129) packets whose Source Block Length field announces blocks much
    /// larger than the OTI maximum, never decodable: what is allocated is what the packets announce
    LyingBlockLength,
    /// TSI filtering on: thousands of short-lived sessions, each TSI registered, used by one packet and released
    /// again (the filter must not remember every TSI it ever listened to)
    FilterChurn,
}

#[derive(Clone, Debug, PartialEq, Serialize, Deserialize)]
pub struct Scn {
    pub kind: Kind,
    pub cache: usize,
    pub max_objects_error: usize,
    pub object_timeout_ms: u64,
    /// object_receive_once = false (only with RepeatedValidFdtInstances)
    #[serde(default)]
    pub receive_once_off: bool,
    /// RepeatedValidFdtInstances: 0 = every instance announces one new object that is never sent; 1 = the instances
    /// describe NO file at all (an idle sender that keeps publishing); 2 = the announced object (10 bytes, one packet)
    /// is sent and completes - every later instance no longer lists it
    #[serde(default)]
    pub fdt_variant: u8,
    pub session_timeout_ms: Option<u64>,
    /// object_timeout = None: stalled objects only go away with their session (needs a session timeout)
    #[serde(default)]
    pub no_object_timeout: bool,
    pub scheme: Scheme,
    pub e: u16,
    pub b: u32,
    /// traffic volume as a multiple of the cache size / number of crafted items
    pub factor: u32,
    pub cleanup_every: u32,
    /// the wall clock handed to push()/cleanup() while the monotonic clock advances normally: 0 = follows it,
    /// 1 = frozen at the first instant, 2 = steps back by one hour after a third of the traffic
    #[serde(default)]
    pub wall_clock: u8,
}

pub struct C17;

pub fn gen(idx: u64, rng: &mut Rng, tier: Tier) -> Scn {
    let kinds = [
        Kind::NoFdtInband,
        Kind::NoFdtCached,
        Kind::MissingSymbol,
        Kind::ManyTois,
        Kind::ManyFdtIds,
        Kind::ManySessions,
        Kind::NoFdtCachedTinyPayload,
        Kind::StalledWithFdtUpdates,
        Kind::ExpiredFdtInstances,
        Kind::InterruptedObjects,
        Kind::LyingBlockLength,
        Kind::FilterChurn,
        Kind::RepeatedValidFdtInstances,
        Kind::SparseBlockNumbers,
    ];
    let kind = kinds[(idx % 14) as usize];
    let cache = *rng.pick(&[1024usize, 4096, 16 * 1024, 64 * 1024, if tier == Tier::Thorough { 1024 * 1024 } else { 32 * 1024 }]);
    let scheme = match kind {
        Kind::MissingSymbol | Kind::StalledWithFdtUpdates | Kind::InterruptedObjects => Scheme::NoCode,
        _ => *rng.pick(&[Scheme::NoCode, Scheme::Rs28, Scheme::RaptorQ]),
    };
    Scn {
        kind,
        cache,
        max_objects_error: if kind == Kind::InterruptedObjects { *rng.pick(&[1usize, 2, 4, 8]) } else { *rng.pick(&[0usize, 1, 2, 8]) },
        object_timeout_ms: *rng.pick(&[5u64, 100, 10_000]),
        session_timeout_ms: if rng.chance(0.7) { Some(*rng.pick(&[10u64, 500, 30_000])) } else { None },
        no_object_timeout: rng.chance(0.15),
        scheme,
        e: *rng.pick(&[256u16, 512, 1024]),
        b: *rng.pick(&[2u32, 4, 8]),
        factor: 20,
        cleanup_every: *rng.pick(&[0u32, 0, 50, 1]),
        wall_clock: *rng.pick(&[0u8, 0, 0, 1, 2]),
        receive_once_off: kind == Kind::RepeatedValidFdtInstances && rng.chance(0.6),
        fdt_variant: rng.below(3) as u8,
    }
}

fn crafted(kind: Kind, n: u32, e: usize) -> Vec<Vec<u8>> {
    let mut out = Vec::new();
    for i in 1..=n {
        let fti = Some(Fti { fec: wire::FEC_NOCODE, transfer_length: 4 * e as u64, e: e as u32, b: Some(64), max_n: None, instance_id: None, z: None, n: None, al: None });
        let b = match kind {
            Kind::ManyTois => {
                let toi = i as u128;
                let (tl, ol) = wire::field_lens(1, toi);
                Build { cci_words: 1, tsi: 1, tsi_len: tl, toi, toi_len: ol, cp: 0, fti, sbn: 0, esi: 0, payload: vec![0x11; e], ..Default::default() }
            }
            Kind::ManyFdtIds => {
                let (tl, ol) = wire::field_lens(1, 0);
                Build { cci_words: 1, tsi: 1, tsi_len: tl, toi: 0, toi_len: ol, cp: 0, fdt: Some((2, i & 0xFFFFF)), fti, sbn: 0, esi: 0, payload: vec![b'<'; e], ..Default::default() }
            }
            _ => {
                let tsi = i as u64 + 10;
                let (tl, ol) = wire::field_lens(tsi, 1);
                Build { cci_words: 1, tsi, tsi_len: tl, toi: 1, toi_len: ol, cp: 0, fti, sbn: 0, esi: 0, payload: vec![0x22; e], ..Default::default() }
            }
        };
        out.push(wire::encode(&b));
    }
    out
}

use crate::monitor::NullBuilder;

struct Rr {
    recv: Option<flute::receiver::MultiReceiver>,
    /// see Scn::wall_clock; `step_at` = instant (us) after which mode 2 has stepped back
    wall_clock: u8,
    step_at: u64,
}
impl Rr {
    fn clock(&self, t_us: u64) -> std::time::SystemTime {
        flute::verif::clock::set(std::time::Duration::from_micros(t_us.saturating_sub(t0_us() - 1_000_000)));
        flute::verif::reset_loop_budget(crate::rdrv::LOOP_BUDGET);
        match self.wall_clock {
            1 => systime_us(t0_us()),
            2 if t_us >= self.step_at => systime_us(t_us.saturating_sub(3_600_000_000)),
            _ => systime_us(t_us),
        }
    }
    fn push(&mut self, ep: &flute::core::UDPEndpoint, b: &[u8], t_us: u64) {
        let now = self.clock(t_us);
        let _ = self.recv.as_mut().unwrap().push(ep, b, now);
    }
    fn cleanup(&mut self, t_us: u64) {
        let now = self.clock(t_us);
        self.recv.as_mut().unwrap().cleanup(now);
    }
    fn nb_objects(&self) -> usize {
        self.recv.as_ref().unwrap().nb_objects()
    }
    fn nb_objects_error(&self) -> usize {
        self.recv.as_ref().unwrap().nb_objects_error()
    }
    fn drop_receiver(&mut self) {
        self.recv.take();
    }
}

pub fn run(scn: &Scn, ctx: &Ctx, scratch: &Path) {
    let recv = RecvSpec {
        max_objects_error: scn.max_objects_error,
        session_timeout_ms: scn.session_timeout_ms,
        object_timeout_ms: if scn.no_object_timeout && scn.session_timeout_ms.is_some() && scn.kind != Kind::StalledWithFdtUpdates { None } else { Some(scn.object_timeout_ms) },
        cache_size: Some(scn.cache),
        receive_once: !scn.receive_once_off,
        expiry_check: true,
        md5_check: true,
    };
    // traffic
    let e = scn.e as usize;
    let mut traffic: Vec<Vec<u8>> = Vec::new();
    // source block number of each datagram (kinds built from a sender trace), for the block-count rule
    let mut sbns: Vec<u32> = Vec::new();
    let mut block_bytes = scn.b as usize * e;
    let mut pkt_len = e + 48;
    match scn.kind {
        Kind::NoFdtInband | Kind::NoFdtCached | Kind::MissingSymbol => {
            let mut spec = SenderSpec::basic(OtiSpec::new(Scheme::NoCode, 1400, 64, 0, true));
            spec.interleave = 1;
            spec.queues = vec![(0, 1)];
            let len = scn.factor as usize * scn.cache.max(4 * block_bytes);
            let mut o = ObjectSpec::basic(len, 0xC17, 0);
            o.kind = ContentKind::Counter;
            o.md5 = false;
            let parity = if scn.scheme == Scheme::NoCode { 0 } else { 1 };
            o.oti = Some(OtiSpec::new(scn.scheme, scn.e, scn.b, parity, scn.kind != Kind::NoFdtCached));
            let mut poll = PollSpec::simple(1000);
            poll.max_pkts = 200_000;
            poll.idle_polls_after_done = 0;
            let s = SenderScn {
                spec,
                objects: vec![o],
                ops: vec![TimedOp { when: When::AtUs(0), op: Op::Add(0) }, TimedOp { when: When::AtUs(0), op: Op::Publish }],
                poll,
                snapshots: false,
            };
            let sess = match run_sender(&s, ctx, scratch) {
                Some(x) => x,
                None => return,
            };
            for p in &sess.trace.pkts {
                let keep = match scn.kind {
                    Kind::NoFdtInband | Kind::NoFdtCached => p.dec.toi != 0,
                    _ => !(p.dec.toi != 0 && p.dec.esi == 0),
                };
                if keep && !p.dec.close_object {
                    traffic.push(p.bytes.clone());
                    sbns.push(p.dec.sbn);
                    pkt_len = pkt_len.max(p.bytes.len());
                }
            }
        }
        Kind::ManyTois | Kind::ManyFdtIds | Kind::ManySessions => {
            traffic = crafted(scn.kind, scn.factor * 100, e);
            block_bytes = 4 * e;
        }
        Kind::FilterChurn => {
            traffic = crafted(Kind::ManySessions, scn.factor * 100, e);
            block_bytes = 4 * e;
        }
        Kind::NoFdtCachedTinyPayload => {
            // header-only datagrams of one TOI without EXT_FTI: they can only be cached
            let plen = (scn.b as usize) % 3; // 0, 1 or 2 payload bytes
            let n = scn.factor as usize * scn.cache / 16 + 64;
            for i in 0..n {
                let (tl, ol) = wire::field_lens(1, 1);
                traffic.push(wire::encode(&Build { cci_words: 1, tsi: 1, tsi_len: tl, toi: 1, toi_len: ol, cp: 0, sbn: (i / 60000) as u32, esi: (i % 60000) as u32, payload: vec![0x33; plen], ..Default::default() }));
            }
            pkt_len = traffic[0].len();
            block_bytes = 0;
        }
        Kind::StalledWithFdtUpdates => {
            // handled below (needs its own clock schedule)
        }
        Kind::ExpiredFdtInstances => {
            // single-packet FDT instances, each with a new id, Expires far in the past (NTP seconds), no SCT
            let n = scn.factor as usize * 100;
            for i in 1..=n {
                let pad = "x".repeat((scn.e as usize).min(900));
                let xml = format!(
                    "<?xml version=\"1.0\" encoding=\"UTF-8\"?><FDT-Instance xmlns=\"urn:IETF:metadata:2005:FLUTE:FDT\" Expires=\"3000000000\"><File TOI=\"{}\" Content-Location=\"file:///expired/{}/{}\" Content-Length=\"10\" Transfer-Length=\"10\" FEC-OTI-FEC-Encoding-ID=\"0\" FEC-OTI-Maximum-Source-Block-Length=\"4\" FEC-OTI-Encoding-Symbol-Length=\"16\"/></FDT-Instance>",
                    i, i, pad
                );
                traffic.extend(wire::packetise_fdt(xml.as_bytes(), 1, i as u32, 1400, None, None));
            }
            block_bytes = 4 * e;
        }
        Kind::RepeatedValidFdtInstances => {
            // single-packet FDT instances, each with a new id and a lifetime far in the future, each delivered twice
            let n = scn.factor as usize * 40;
            for i in 1..=n {
                let pad = "x".repeat((scn.e as usize).min(900));
                let xml = format!(
                    "<?xml version=\"1.0\" encoding=\"UTF-8\"?><FDT-Instance xmlns=\"urn:IETF:metadata:2005:FLUTE:FDT\" Expires=\"4100000000\"><File TOI=\"{}\" Content-Location=\"file:///valid/{}/{}\" Content-Length=\"10\" Transfer-Length=\"10\" FEC-OTI-FEC-Encoding-ID=\"0\" FEC-OTI-Maximum-Source-Block-Length=\"4\" FEC-OTI-Encoding-Symbol-Length=\"16\"/></FDT-Instance>",
                    i, i, pad
                );
                let xml = if scn.fdt_variant == 1 {
                    format!("<?xml version=\"1.0\" encoding=\"UTF-8\"?><FDT-Instance xmlns=\"urn:IETF:metadata:2005:FLUTE:FDT\" Expires=\"4100000000\"><!-- {} {} --></FDT-Instance>", i, pad)
                } else {
                    xml
                };
                let pk = wire::packetise_fdt(xml.as_bytes(), 1, i as u32, 1400, None, None);
                traffic.extend(pk.iter().cloned());
                traffic.extend(pk);
                if scn.fdt_variant == 2 {
                    // the object itself: one symbol of 10 bytes, then the same packet again (second transfer)
                    let (tl, ol) = wire::field_lens(1, i as u128);
                    let obj = wire::encode(&Build {
                        cci_words: 1,
                        tsi: 1,
                        tsi_len: tl,
                        toi: i as u128,
                        toi_len: ol,
                        cp: 0,
                        close_object: true,
                        fti: Some(Fti { fec: wire::FEC_NOCODE, transfer_length: 10, e: 16, b: Some(4), max_n: None, instance_id: None, z: None, n: None, al: None }),
                        sbn: 0,
                        esi: 0,
                        payload: vec![0x33; 10],
                        ..Default::default()
                    });
                    traffic.push(obj.clone());
                    traffic.push(obj);
                }
            }
            block_bytes = 4 * e;
        }
        Kind::SparseBlockNumbers => {
            let step = *[4096u32, 4000, 1024][(scn.e as usize / 256) % 3..].first().unwrap();
            for i in 0..(scn.factor as u32 * 30) {
                let (tl, ol) = wire::field_lens(1, 1);
                traffic.push(wire::encode(&Build {
                    cci_words: 1,
                    tsi: 1,
                    tsi_len: tl,
                    toi: 1,
                    toi_len: ol,
                    cp: wire::FEC_RS28US,
                    fti: Some(Fti { fec: wire::FEC_RS28US, transfer_length: 1 << 40, e: e as u32, b: Some(1), max_n: Some(2), instance_id: Some(0), z: None, n: None, al: None }),
                    sbn: (i + 1) * step,
                    esi: 0,
                    sbl: 1,
                    payload: vec![0x55; e],
                    ..Default::default()
                }));
            }
            block_bytes = e;
        }
        Kind::LyingBlockLength => {
            // announced blocks of `sbl` symbols (OTI maximum: 4), `sbl - 2` of them sent: never decodable
            let sbl = 60u32;
            let n_blocks = (scn.factor as usize * scn.cache) / (sbl as usize * e) + 6;
            for sbn in 0..n_blocks as u32 {
                for esi in 0..(sbl - 2) {
                    let (tl, ol) = wire::field_lens(1, 1);
                    traffic.push(wire::encode(&Build {
                        cci_words: 1,
                        tsi: 1,
                        tsi_len: tl,
                        toi: 1,
                        toi_len: ol,
                        cp: wire::FEC_RS28US,
                        fti: Some(Fti { fec: wire::FEC_RS28US, transfer_length: (n_blocks * 4 * e) as u64, e: e as u32, b: Some(4), max_n: Some(6), instance_id: Some(0), z: None, n: None, al: None }),
                        sbn,
                        esi,
                        sbl,
                        payload: vec![0x44; e],
                        ..Default::default()
                    }));
                    sbns.push(sbn);
                }
            }
            pkt_len = traffic[0].len();
            block_bytes = sbl as usize * e;
        }
        Kind::InterruptedObjects => {
            let mut spec = SenderSpec::basic(OtiSpec::new(Scheme::NoCode, 1400, 64, 0, true));
            spec.interleave = 1;
            spec.queues = vec![(0, 1)];
            let nobj = 24 + 4 * scn.b as usize;
            let mut objects = Vec::new();
            let mut ops = Vec::new();
            for i in 0..nobj {
                let mut o = ObjectSpec::basic(3 * 16, 0xC17 + i as u64, i);
                o.md5 = false;
                o.oti = Some(OtiSpec::new(Scheme::NoCode, 16, 4, 0, i % 2 == 0));
                objects.push(o);
                ops.push(TimedOp { when: When::AtUs(0), op: Op::Add(i) });
            }
            ops.push(TimedOp { when: When::AtUs(0), op: Op::Publish });
            let mut poll = PollSpec::simple(1000);
            poll.max_pkts = 10_000;
            poll.idle_polls_after_done = 0;
            let s = SenderScn { spec, objects, ops, poll, snapshots: false };
            let sess = match run_sender(&s, ctx, scratch) {
                Some(x) => x,
                None => return,
            };
            for p in &sess.trace.pkts {
                // the first symbol of every object is lost, its close-object packet arrives
                if !(p.dec.toi != 0 && p.dec.esi == 0) {
                    traffic.push(p.bytes.clone());
                }
            }
            block_bytes = 4 * 16;
        }
    }
    if scn.kind == Kind::StalledWithFdtUpdates {
        return run_fdt_updates(scn, ctx, scratch, &recv);
    }
    if traffic.is_empty() {
        return;
    }
    let baseline = alloc::live();
    let builder = std::rc::Rc::new(NullBuilder::default());
    let filtering = scn.kind == Kind::FilterChurn;
    // (the expired-instance kind depends on the wall clock by construction)
    let wall_clock = if scn.kind == Kind::ExpiredFdtInstances { 0 } else { scn.wall_clock };
    let mut rr = Rr { recv: Some(flute::receiver::MultiReceiver::new(builder.clone(), Some(recv.config()), filtering)), wall_clock, step_at: t0_us() + (traffic.len() as u64 * 50) / 3 };
    let ep = EndpointSpec::default_ep().build();
    let base_recv = alloc::live();
    // per-object bound: cache (+ per-packet bookkeeping) + 2 blocks (+ per-symbol bookkeeping), slack 3
    let per_pkt_overhead = 400usize;
    let cached_bound = (scn.cache / pkt_len + 2) * (pkt_len + per_pkt_overhead);
    // decoded-but-unwritten blocks: cache + 2 blocks of data, plus what each live block decoder costs beyond
    // its data (Reed-Solomon codec matrices and inversion cache, RaptorQ/No-Code symbol tables): 16 KiB per
    // block that may be alive at once
    let per_block_overhead = 16 * 1024 + scn.b as usize * 64;
    let live_blocks = scn.cache / block_bytes.max(1) + 3;
    let blocks_bound = if block_bytes == 0 { 0 } else { scn.cache + 2 * block_bytes + live_blocks * per_block_overhead };
    let one_object_bound = 2 * (cached_bound.max(blocks_bound)) + 64 * 1024;
    let mut t = t0_us();
    let mut worst_growth = 0usize;
    let mut max_err = 0usize;
    let mut max_objs = 0usize;
    let mut abandoned = false;
    let mut sessions_seen = std::collections::BTreeSet::new();
    // exact accounting on the traffic itself (independent of the allocator measurement): datagram bytes and
    // distinct source blocks handed to the receiver for the stalled object BEFORE the push after which it is
    // found abandoned
    let mut pushed_bytes = 0usize;
    let mut blocks_touched: std::collections::BTreeSet<u32> = Default::default();
    let mut precise_reported = false;
    let mut steady_reported = false;
    let err_before = 0usize;
    for (i, b) in traffic.iter().enumerate() {
        t += 50;
        if !abandoned && !precise_reported {
            match scn.kind {
                Kind::NoFdtCached | Kind::NoFdtCachedTinyPayload => {
                    // flute refuses a packet once the cached datagrams have reached the limit
                    if pushed_bytes > scn.cache + 2 * pkt_len && i > 2 {
                        precise_reported = true;
                        violate(
                            ctx,
                            "C17/stalled-object-exceeds-cache",
                            "packet-cache-exact",
                            format!(
                                "{} bytes of datagrams ({} packets) of one object without FDT have been accepted and the object is still held: object_max_cache_size={} (+ one datagram of {} bytes)",
                                pushed_bytes, i, scn.cache, pkt_len
                            ),
                        );
                    }
                }
                Kind::NoFdtInband | Kind::MissingSymbol | Kind::LyingBlockLength => {
                    // a new block is refused once two blocks are allocated and the total would exceed the limit
                    let allowed = (scn.cache / block_bytes.max(1)).max(2) + 1;
                    if blocks_touched.len() > allowed + 1 {
                        precise_reported = true;
                        violate(
                            ctx,
                            "C17/stalled-object-exceeds-cache",
                            "blocks-exact",
                            format!(
                                "packets of {} distinct source blocks ({} bytes each) of one stalled object have been accepted and the object is still held: object_max_cache_size={} allows {} blocks",
                                blocks_touched.len(), block_bytes, scn.cache, allowed
                            ),
                        );
                    }
                }
                _ => {}
            }
            pushed_bytes += b.len();
            if let Some(s) = sbns.get(i) {
                blocks_touched.insert(*s);
            }
        }
        let _ = err_before;
        if filtering {
            // crafted(ManySessions): datagram i belongs to TSI i + 11
            rr.recv.as_mut().unwrap().add_listen_tsi(ep.clone(), i as u64 + 11);
        }
        rr.push(&ep, b, t);
        if filtering {
            rr.recv.as_mut().unwrap().remove_listen_tsi(&ep, i as u64 + 11);
        }
        let cleanup_every = if scn.kind == Kind::ExpiredFdtInstances { 1 } else { scn.cleanup_every };
        if cleanup_every > 0 && (i as u32 + 1) % cleanup_every == 0 {
            rr.cleanup(t);
        }
        let ne = rr.nb_objects_error();
        max_err = max_err.max(ne);
        max_objs = max_objs.max(rr.nb_objects());
        if i > 0 && rr.nb_objects() == 0 {
            abandoned = true;
        }
        if scn.kind == Kind::ManyTois && scn.cleanup_every == 1 && scn.session_timeout_ms.is_none() {
            // steady traffic with cleanup() after every packet (the documented usage): a stalled object is released
            // one object timeout after its packet, so only the objects of the last timeout window are held
            let window = (scn.object_timeout_ms * 1000 / 50) as usize + 64;
            if rr.nb_objects() > window && !steady_reported {
                steady_reported = true;
                violate(
                    ctx,
                    "C17/objects-survive-timeout",
                    "steady-traffic-polled-cleanup",
                    format!("push {}: {} stalled objects are held although cleanup() runs after every packet (one new TOI every 50 us, object timeout {} ms: at most {} can be younger than the timeout)", i, rr.nb_objects(), scn.object_timeout_ms, window),
                );
            }
        }
        if scn.kind == Kind::ManySessions || scn.kind == Kind::FilterChurn {
            sessions_seen.insert(i);
        } else {
            sessions_seen.insert(0);
        }
        // the limit is per session
        if ne > scn.max_objects_error * sessions_seen.len() {
            violate(
                ctx,
                "C17/error-list-exceeds-limit",
                "-",
                format!("nb_objects_error()={} after push {} with max_objects_error={}", ne, i, scn.max_objects_error),
            );
            break;
        }
        if i % 16 == 0 || i + 1 == traffic.len() {
            let growth = alloc::live().saturating_sub(base_recv);
            worst_growth = worst_growth.max(growth);
            if std::env::var("C17_DEBUG").is_ok() {
                eprintln!("push {} len {} growth {} objs {} err {}", i, b.len(), growth, rr.nb_objects(), rr.nb_objects_error());
            }
        }
    }
    ctx.borrow_mut().nontrivial = true;
    ctx.borrow_mut().count_fault(match scn.kind {
        Kind::NoFdtInband | Kind::NoFdtCached => "drop-class-all-fdt",
        Kind::NoFdtCachedTinyPayload => "inject-header-only-datagrams",
        Kind::StalledWithFdtUpdates => "drop-class-one-symbol-per-block",
        Kind::MissingSymbol => "drop-class-one-symbol-per-block",
        Kind::ManyTois => "inject-many-tois",
        Kind::ManyFdtIds => "inject-many-fdt-ids",
        Kind::ManySessions => "inject-many-sessions",
        Kind::ExpiredFdtInstances => "inject-expired-fdt-instances",
        Kind::RepeatedValidFdtInstances => "inject-repeated-valid-fdt-instances",
        Kind::InterruptedObjects => "drop-class-first-symbol-keep-close-object",
        Kind::LyingBlockLength => "inject-lying-source-block-length",
        Kind::SparseBlockNumbers => "inject-sparse-source-block-numbers",
        Kind::FilterChurn => "tsi-filter-churn",
    });
    match scn.kind {
        Kind::NoFdtInband | Kind::NoFdtCached | Kind::MissingSymbol | Kind::NoFdtCachedTinyPayload | Kind::LyingBlockLength | Kind::SparseBlockNumbers => {
            let volume: usize = traffic.iter().map(|b| b.len()).sum();
            ctx.borrow_mut().note(&format!("held/bound-decile:{:?}:{}", scn.kind, (worst_growth * 10 / one_object_bound.max(1)).min(99)));
            if worst_growth > one_object_bound {
                violate(
                    ctx,
                    "C17/stalled-object-exceeds-cache",
                    match scn.kind {
                        Kind::NoFdtCached => "packet-cache",
                        Kind::NoFdtCachedTinyPayload => "packet-cache-tiny-payload",
                        Kind::NoFdtInband => "decoded-blocks-without-fdt",
                        Kind::LyingBlockLength => "blocks-announced-by-the-packets",
                        Kind::SparseBlockNumbers => "sparse-block-numbers",
                        _ => "incomplete-blocks",
                    },
                    format!(
                        "one stalled object ({:?} E={} B={}) made the receiver hold {} bytes with object_max_cache_size={} (bound {} = 2 x (cache + 2 blocks + bookkeeping)); traffic pushed: {} bytes",
                        scn.scheme, scn.e, scn.b, worst_growth, scn.cache, one_object_bound, volume
                    ),
                );
            }
            // beyond the limit the object is abandoned and, when the list has room, counted in error
            if volume > 4 * scn.cache + 8 * block_bytes && scn.kind != Kind::MissingSymbol && scn.kind != Kind::LyingBlockLength && scn.kind != Kind::SparseBlockNumbers {
                if !abandoned {
                    violate(
                        ctx,
                        "C17/stalled-object-not-abandoned",
                        "-",
                        format!("{} bytes of undecodable traffic (cache {}) were pushed and the object was never abandoned (nb_objects() never dropped to 0)", volume, scn.cache),
                    );
                }
                if scn.max_objects_error >= 1 && max_err == 0 {
                    violate(
                        ctx,
                        "C17/abandoned-object-not-counted",
                        "-",
                        format!("the stalled object was never counted in nb_objects_error() (max_objects_error={})", scn.max_objects_error),
                    );
                }
            }
        }
        Kind::ExpiredFdtInstances => {
            // cleanup ran after every push: an instance that is expired on arrival is released at once
            let bound = 128 * 1024;
            if worst_growth > bound {
                violate(
                    ctx,
                    "C17/expired-fdt-instances-accumulate",
                    "-",
                    format!(
                        "{} complete-but-expired FDT instances (new id each, cleanup after every push) made the receiver hold {} bytes (bound {})",
                        traffic.len(), worst_growth, bound
                    ),
                );
            }
        }
        Kind::RepeatedValidFdtInstances => {
            // a bounded number of instances is current, whatever the number of ids seen
            let bound = 160 * 1024;
            if worst_growth > bound {
                violate(
                    ctx,
                    "C17/valid-fdt-instances-accumulate",
                    if scn.receive_once_off { "receive-once-off" } else { "-" },
                    format!("{} valid FDT instances (new id each, each received twice) made the receiver hold {} bytes (bound {})", traffic.len() / 2, worst_growth, bound),
                );
            }
        }
        Kind::InterruptedObjects => {
            if max_err == 0 && scn.max_objects_error >= 1 {
                ctx.borrow_mut().note("note:interrupted-objects-not-counted-in-error");
            }
        }
        _ => {}
    }
    // after the timeouts a cleanup releases everything
    // (half a timeout later, not a whole second: a timeout of 10 ms or 500 ms has elapsed by then)
    let longest = scn.object_timeout_ms.max(scn.session_timeout_ms.unwrap_or(0)) * 1000;
    let wait = longest + longest / 2 + 1000;
    t += wait;
    // ONE cleanup after the timeouts have elapsed releases everything
    rr.cleanup(t);
    if rr.nb_objects() != 0 {
        violate(
            ctx,
            "C17/objects-survive-timeout",
            "-",
            format!("{:?}: nb_objects()={} after the object timeout ({} ms) elapsed and cleanup ran", scn.kind, rr.nb_objects(), scn.object_timeout_ms),
        );
    }
    let after = alloc::live().saturating_sub(base_recv);
    let sessions_stay = scn.session_timeout_ms.is_none();
    // what may legitimately stay: per session a Receiver shell (when sessions never expire), the error list
    let allowance = 96 * 1024
        + if sessions_stay && (scn.kind == Kind::ManySessions || scn.kind == Kind::FilterChurn) { traffic.len() * 2048 } else { 0 }
        + scn.max_objects_error * 256;
    if after > allowance {
        violate(
            ctx,
            "C17/memory-not-released-after-timeouts",
            match scn.kind {
                Kind::ManyFdtIds => "unfinished-fdt-instances",
                Kind::RepeatedValidFdtInstances => "completed-fdt-instances",
                Kind::ManySessions => "idle-sessions",
                Kind::FilterChurn => "tsi-filter-entries",
                Kind::ManyTois => "stalled-objects",
                _ => "stalled-object",
            },
            format!(
                "{:?}: {} bytes are still held by the receiver after object timeout {} ms / session timeout {:?} elapsed and cleanup ran (allowance {}); peak growth during traffic {}",
                scn.kind, after, scn.object_timeout_ms, scn.session_timeout_ms, allowance, worst_growth
            ),
        );
    }
    {
        let mut c = ctx.borrow_mut();
        c.note_n("max-objects-seen", max_objs as u64);
        c.note_n("pushes", traffic.len() as u64);
        c.note_n("writers-created", builder.writers.get());
        c.sig(&format!("{:?}/{}/{}/{}/{:?}/{:?}/{}/{}", scn.kind, scn.cache, scn.max_objects_error, scn.object_timeout_ms, scn.session_timeout_ms, scn.scheme, scn.e, scn.b));
        c.trace(&format!("c17 {:?} worst={} after={} err={} objs={}", scn.kind, worst_growth / 4096, after / 4096, max_err, max_objs));
    }
    rr.drop_receiver();
    let after_drop = alloc::live().saturating_sub(base_recv);
    if after_drop > 64 * 1024 {
        // memory the harness itself holds would make the measurements above meaningless
        ctx.borrow_mut().note("harness-held-memory-after-drop");
    }
    let _ = baseline;
}

/// Objects stalled by a missing symbol; the sender keeps publishing NEW FDT instances more often than the
/// object timeout; cleanup is polled. Once the object timeout has elapsed since the last packet of the
/// stalled objects they must be released, FDT updates or not.
fn run_fdt_updates(scn: &Scn, ctx: &Ctx, scratch: &Path, recv: &RecvSpec) {
    let timeout_us = scn.object_timeout_ms * 1000;
    let period_us = (timeout_us / 3).max(1000);
    let mut spec = SenderSpec::basic(OtiSpec::new(Scheme::NoCode, 1400, 64, 0, true));
    spec.queues = vec![(0, 4)];
    let nobj = 4usize;
    let mut objects = Vec::new();
    let mut ops = Vec::new();
    for i in 0..nobj {
        let mut o = ObjectSpec::basic(scn.e as usize * scn.b as usize * 3, 0xC17 + i as u64, i);
        o.md5 = false;
        o.oti = Some(OtiSpec::new(Scheme::NoCode, scn.e, scn.b, 0, i % 2 == 0));
        o.carousel = Some(CarouselSpec::DelayMs(1_000_000_000));
        objects.push(o);
        ops.push(TimedOp { when: When::AtUs(0), op: Op::Add(i) });
    }
    ops.push(TimedOp { when: When::AtUs(0), op: Op::Publish });
    // 12 further publications, each a new instance id, every third of the object timeout
    for k in 1..=12u64 {
        ops.push(TimedOp { when: When::AtUs(k * period_us), op: Op::Publish });
    }
    let mut poll = PollSpec::simple(period_us / 2 + 1);
    poll.max_polls = 40;
    poll.idle_polls_after_done = 0;
    let s = SenderScn { spec, objects, ops, poll, snapshots: false };
    let sess = match run_sender(&s, ctx, scratch) {
        Some(x) => x,
        None => return,
    };
    let builder = std::rc::Rc::new(NullBuilder::default());
    let mut rr = Rr { recv: Some(flute::receiver::MultiReceiver::new(builder, Some(recv.config()), false)), wall_clock: 0, step_at: 0 };
    let ep = EndpointSpec::default_ep().build();
    let mut last_obj_pkt = 0u64;
    let mut held_after_timeout = None;
    for p in &sess.trace.pkts {
        // one symbol of every block is lost: the objects stall
        if p.dec.toi != 0 && p.dec.esi == 0 {
            continue;
        }
        if p.dec.toi != 0 {
            last_obj_pkt = last_obj_pkt.max(p.t_us);
        }
        rr.push(&ep, &p.bytes, p.t_us);
        rr.cleanup(p.t_us);
        if last_obj_pkt > 0 && p.t_us > last_obj_pkt + timeout_us + period_us && held_after_timeout.is_none() {
            held_after_timeout = Some((rr.nb_objects(), p.t_us - last_obj_pkt));
        }
    }
    let mut c = ctx.borrow_mut();
    c.nontrivial = true;
    c.count_fault("drop-class-one-symbol-per-block");
    c.sig(&format!("fdt-updates/{}/{}/{}", scn.object_timeout_ms, scn.e, scn.b));
    drop(c);
    match held_after_timeout {
        Some((n, since)) if n > 0 => violate(
            ctx,
            "C17/objects-survive-timeout",
            "fdt-updates-keep-objects-alive",
            format!(
                "{} stalled objects are still held {} us after their last packet (object timeout {} ms) although cleanup ran after every push; a new FDT instance arrives every {} us",
                n, since, scn.object_timeout_ms, period_us
            ),
        ),
        Some(_) => {}
        None => ctx.borrow_mut().note("skip:fdt-updates-run-too-short"),
    }
    rr.drop_receiver();
}

impl Prop for C17 {
    fn id(&self) -> &'static str {
        "C17"
    }
    fn info(&self) -> PropInfo {
        PropInfo {
            level: "exploration",
            rule: "seeded adversarial traffic that keeps objects undecodable, pushed into a real receiver whose live heap is measured by a counting global allocator and whose monotonic clock is simulated (hook H1): (a) in-band FTI but the FDT never arrives, (b) FDT-only OTI and the FDT never arrives (packet cache), (c) one source symbol of every block missing, each with 20x more traffic than the configured object_max_cache_size (1 KiB - 64 KiB, 1 MiB in thorough); (d) 2000 TOIs, (e) 2000 FDT instance ids, (f) 2000 sessions that never complete. x max_objects_error 0-8 x object timeout 5 ms - 10 s x session timeout none/10 ms - 30 s x FEC scheme x E x B x cleanup cadence. Oracle: held bytes for one stalled object <= 2 x (cache + 2 blocks + bookkeeping); the object is abandoned and counted in error; nb_objects_error() <= max_objects_error after every call; after the timeouts elapsed and cleanup ran: nb_objects() == 0 and the heap is back to the level before the traffic (+ fixed allowance). Non-trivial: traffic was pushed.",
            assumptions: vec!["bookkeeping allowance: 400 bytes per cached packet, 16 KiB + 64 bytes per symbol for every block decoder that may be alive (cache/block + 3), slack factor 2; the traffic is 20x the cache so a missing limit overshoots the bound by a wide margin (held/bound deciles are in the evidence)", "hook H1 (simulated Instant) is faithful"],
            real: vec!["MultiReceiver/Receiver/ObjectReceiver/FdtReceiver, all block decoders"],
            stub: vec!["network (adversarial)", "wall and monotonic clocks", "global allocator (counting)", "monitoring writer (keeps no data)"],
        }
    }
    fn runs(&self, tier: Tier) -> u64 {
        match tier {
            Tier::Quick => 6000,
            Tier::Thorough => 12_000,
        }
    }
    fn generate(&self, idx: u64, tier: Tier, rng: &mut Rng) -> Value {
        serde_json::to_value(gen(idx, rng, tier)).unwrap()
    }
    fn run(&self, scn: &Value, ctx: &Ctx, scratch: &Path) {
        match serde_json::from_value::<Scn>(scn.clone()) {
            Ok(s) => run(&s, ctx, scratch),
            Err(e) => ctx.borrow_mut().note(&format!("bad-scenario:{}", e)),
        }
    }
    fn shrink(&self, scn: &Value) -> Vec<Value> {
        let s: Scn = match serde_json::from_value(scn.clone()) {
            Ok(s) => s,
            Err(_) => return vec![],
        };
        let mut out = Vec::new();
        let mut push = |f: &dyn Fn(&mut Scn)| {
            let mut n = s.clone();
            f(&mut n);
            if n != s {
                out.push(n);
            }
        };
        push(&|n| n.cleanup_every = 0);
        push(&|n| n.scheme = Scheme::NoCode);
        push(&|n| n.cache = 1024);
        push(&|n| n.max_objects_error = 0);
        push(&|n| n.session_timeout_ms = None);
        push(&|n| n.b = 2);
        push(&|n| n.e = 256);
        push(&|n| n.factor = (n.factor / 2).max(4));
        out.into_iter().map(|s| serde_json::to_value(s).unwrap()).collect()
    }
}
