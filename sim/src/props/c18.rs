//! C18 — multi-session demultiplexing, TSI filtering and session listener events.

use super::common::*;
use super::session::*;
use crate::ctx::{violate, Ctx};
use crate::engine::*;
use crate::monitor::*;
use crate::rdrv::*;
use crate::rng::Rng;
use crate::sdrv::*;
use crate::spec::*;
use crate::wire::{self, Build, Fti};
use serde::{Deserialize, Serialize};
use serde_json::Value;
use std::cell::RefCell;
use std::collections::{BTreeMap, BTreeSet};
use std::rc::Rc;
use std::path::Path;
use std::time::Duration;

#[derive(Clone, Debug, PartialEq, Serialize, Deserialize)]
pub enum FilterOp {
    AddTsi(usize, u64),
    RemoveTsi(usize, u64),
    AddAll(usize),
    RemoveAll(usize),
    /// set_tsi_filtering(enable): registrations keep being recorded while filtering is off
    SetFiltering(bool),
}

#[derive(Clone, Debug, PartialEq, Serialize, Deserialize)]
pub enum Scn {
    /// 2-4 sessions merged by a seeded interleaver vs each stream alone
    Demux {
        sessions: Vec<SenderScn>,
        recv: RecvSpec,
        /// monotonic clock advance per read inside one call (models a real clock, D14)
        jitter_us: u64,
        cleanup_every: u32,
        /// close-session packet injected for session i before its packet k
        closes: Vec<(usize, u32)>,
        /// sessions whose LAST packet (a data packet) carries the close-session flag itself (RFC 5651 allows the A
        /// flag on any packet): its payload still counts
        #[serde(default)]
        flag_last: Vec<usize>,
        /// sessions that end with a final FDT packet carrying the close-session flag AND damaged XML (the push fails):
        /// the session is closed all the same
        #[serde(default)]
        damaged_close: Vec<usize>,
        /// the wall clock handed to push / cleanup stands still (one timestamp for the whole capture) while the
        /// monotonic clock advances: session expiry is monotonic
        #[serde(default)]
        wall_frozen: bool,
    },
    /// every listed sequence of filter operations, each prefix probed with packets of every (endpoint, TSI)
    Filter { seqs: Vec<Vec<FilterOp>> },
}

pub struct C18;

fn endpoints() -> Vec<EndpointSpec> {
    vec![
        EndpointSpec { src: None, dst: "224.0.0.1".into(), port: 3400 },
        EndpointSpec { src: Some("10.0.0.1".into()), dst: "224.0.0.1".into(), port: 3400 },
        EndpointSpec { src: None, dst: "224.0.0.2".into(), port: 3400 },
        EndpointSpec { src: Some("10.0.0.1".into()), dst: "224.0.0.2".into(), port: 3400 },
    ]
}

fn all_ops() -> Vec<FilterOp> {
    let mut v = Vec::new();
    for e in 0..4 {
        for t in [1u64, 2] {
            v.push(FilterOp::AddTsi(e, t));
            v.push(FilterOp::RemoveTsi(e, t));
        }
        v.push(FilterOp::AddAll(e));
        v.push(FilterOp::RemoveAll(e));
    }
    v.push(FilterOp::SetFiltering(false));
    v.push(FilterOp::SetFiltering(true));
    v
}

const FILTER_CHUNK: u64 = 96;

fn nth_seq(mut k: u64, depth: u32) -> Vec<FilterOp> {
    let ops = all_ops();
    let n = ops.len() as u64;
    let mut s = Vec::new();
    for _ in 0..depth {
        s.push(ops[(k % n) as usize].clone());
        k /= n;
    }
    s
}

fn n_filter_runs(tier: Tier) -> u64 {
    let depth = if tier == Tier::Quick { 3 } else { 4 };
    let total = (all_ops().len() as u64).pow(depth);
    (total + FILTER_CHUNK - 1) / FILTER_CHUNK
}

pub fn gen(idx: u64, rng: &mut Rng, tier: Tier) -> Scn {
    let nf = n_filter_runs(tier);
    if idx < nf {
        let depth = if tier == Tier::Quick { 3 } else { 4 };
        let total = (all_ops().len() as u64).pow(depth);
        let lo = idx * FILTER_CHUNK;
        let hi = ((idx + 1) * FILTER_CHUNK).min(total);
        return Scn::Filter { seqs: (lo..hi).map(|k| nth_seq(k, depth)).collect() };
    }
    if rng.chance(0.15) {
        // deeper sampled filter sequences
        let ops = all_ops();
        let seqs = (0..32).map(|_| (0..rng.range(4, 7)).map(|_| rng.pick(&ops).clone()).collect()).collect();
        return Scn::Filter { seqs };
    }
    let n = rng.range(2, 4) as usize;
    let eps = endpoints();
    let mut used: BTreeSet<(usize, u64)> = BTreeSet::new();
    let mut sessions = Vec::new();
    for s in 0..n {
        // distinct and equal TSIs on distinct endpoints
        let (e, tsi) = loop {
            let e = rng.below(4) as usize;
            let tsi = *rng.pick(&[1u64, 1, 2, 0x10000]);
            if used.insert((e, tsi)) {
                break (e, tsi);
            }
        };
        let mut spec = SenderSpec::basic(gen_sender_oti(rng, None));
        spec.tsi = tsi;
        spec.endpoint = eps[e].clone();
        spec.full_fdt = rng.chance(0.6);
        spec.interleave = rng.range(1, 3) as u8;
        spec.queues = vec![(0, rng.range(0, 2) as u32)];
        let mut objects = Vec::new();
        let mut ops = Vec::new();
        for i in 0..rng.range(1, 2) as usize {
            let mut o = gen_object(rng, i, &spec, 30);
            o.prio = 0;
            // the same TOIs and locations in different sessions are welcome
            o.location = format!("file:///s{}-o{}.bin", if rng.chance(0.5) { 0 } else { s }, i);
            objects.push(o);
            ops.push(TimedOp { when: When::AtUs(0), op: Op::Add(i) });
        }
        ops.push(TimedOp { when: When::AtUs(0), op: Op::Publish });
        let mut poll = PollSpec::simple(rng.range(200, 5000));
        poll.burst = Some(rng.range(1, 6) as u32);
        poll.idle_polls_after_done = 0;
        poll.max_pkts = 600;
        sessions.push(SenderScn { spec, objects, ops, poll, snapshots: false });
    }
    let mut recv = RecvSpec::basic();
    recv.object_timeout_ms = Some(3_600_000);
    recv.session_timeout_ms = if rng.chance(0.5) { Some(*rng.pick(&[1u64, 5, 50, 2000])) } else { None };
    recv.receive_once = rng.chance(0.7);
    let mut closes = Vec::new();
    for s in 0..n {
        if rng.chance(0.4) {
            closes.push((s, rng.range(0, 80) as u32));
        }
    }
    let mut flag_last = Vec::new();
    for s in 0..n {
        if !closes.iter().any(|(c, _)| *c == s) && rng.chance(0.35) {
            flag_last.push(s);
        }
    }
    Scn::Demux {
        sessions,
        recv,
        jitter_us: if rng.chance(0.5) { *rng.pick(&[1u64, 100, 1000]) } else { 0 },
        cleanup_every: *rng.pick(&[0u32, 1, 3, 10]),
        damaged_close: (0..n).filter(|s| !closes.iter().any(|(c, _)| c == s) && !flag_last.contains(s)).filter(|_| rng.chance(0.3)).collect(),
        wall_frozen: rng.chance(0.2),
        closes,
        flag_last,
    }
}

/// per-session observation: what the writers of one (endpoint, TSI) saw
fn writer_view(monitor: &Monitor, ep: &flute::core::UDPEndpoint, tsi: u64) -> Vec<String> {
    monitor
        .state
        .borrow()
        .writers
        .iter()
        .filter(|w| w.endpoint == *ep && w.tsi == tsi)
        .map(|w| {
            format!(
                "toi={} cl={} {:?} bytes={} h={:016x}",
                w.toi,
                w.meta.content_location,
                w.events.iter().map(|e| e.kind).collect::<Vec<_>>(),
                w.data.len(),
                crate::rng::fnv1a(&w.data)
            )
        })
        .collect()
}

fn close_packet(tsi: u64) -> Vec<u8> {
    let (tl, ol) = wire::field_lens(tsi, 0);
    wire::encode(&Build { cci_words: 1, tsi, tsi_len: tl, toi: 0, toi_len: ol, cp: 0, close_session: true, fti: Some(Fti { fec: 0, transfer_length: 0, e: 0, b: Some(0), max_n: None, instance_id: None, z: None, n: None, al: None }), ..Default::default() })
}

fn check_listener(ctx: &Ctx, events: &[SessEvent], what: &str, dropped: bool) {
    let mut open: BTreeMap<String, bool> = BTreeMap::new();
    for e in events {
        let k = format!("{:?}", e.key);
        let is_open = open.get(&k).copied().unwrap_or(false);
        if e.open {
            if is_open {
                violate(ctx, "C18/listener-double-open", "-", format!("{}: on_session_open twice without close for {}", what, k));
            }
            open.insert(k, true);
        } else {
            if !is_open {
                violate(ctx, "C18/listener-close-without-open", "-", format!("{}: on_session_closed without a preceding open for {}", what, k));
            }
            open.insert(k, false);
        }
    }
    if dropped {
        for (k, v) in &open {
            if *v {
                violate(ctx, "C18/listener-open-never-closed", "-", format!("{}: session {} was opened but never closed although the receiver has been dropped", what, k));
            }
        }
    }
}

fn run_demux(sessions: &[SenderScn], recv: &RecvSpec, jitter_us: u64, cleanup_every: u32, closes: &[(usize, u32)], flag_last: &[usize], damaged_close: &[usize], wall_frozen: bool, ctx: &Ctx, scratch: &Path) {
    let mut sess = Vec::new();
    for s in sessions {
        match run_sender(s, ctx, scratch) {
            Some(x) => sess.push(x),
            None => return,
        }
    }
    let eps: Vec<flute::core::UDPEndpoint> = sessions.iter().map(|s| s.spec.endpoint.build()).collect();
    // the per-session streams (with injected close-session packets)
    let mut streams: Vec<Vec<(u64, Vec<u8>)>> = Vec::new();
    for (i, s) in sess.iter().enumerate() {
        let mut v: Vec<(u64, Vec<u8>)> = Vec::new();
        for (k, p) in s.trace.pkts.iter().enumerate() {
            for (ci, at) in closes {
                if *ci == i && *at as usize == k {
                    v.push((p.t_us, close_packet(sessions[i].spec.tsi)));
                }
            }
            v.push((p.t_us, p.bytes.clone()));
        }
        if damaged_close.contains(&i) {
            let t_end = v.last().map(|x| x.0).unwrap_or(0);
            for mut b in wire::packetise_fdt(b"<?xml version=\"1.0\"?><FDT-Instance Expires=\"4100000000\"><File TOI=", sessions[i].spec.tsi, 900, 1400, None, None) {
                if b.len() > 1 {
                    b[1] |= 0x02;
                }
                v.push((t_end, b));
            }
        }
        if flag_last.contains(&i) {
            if let Some(last) = v.last_mut() {
                if last.1.len() > 1 {
                    last.1[1] |= 0x02; // A (close session) flag of the LCT header
                }
            }
        }
        streams.push(v);
    }
    // session timeouts make the outcome depend on the gaps between the packets of ONE session as seen
    // by the receiver; in the merged run each packet keeps its own timestamp, so those gaps are the same
    let run = |which: &[usize], order: &[(usize, usize)], label: &str| -> (std::rc::Rc<Monitor>, Vec<SessEvent>) {
        let monitor = Monitor::new(ctx, recv.md5_check, WriterFaults::default(), label);
        let mut rr = RecvRun::new(recv, ctx, monitor.clone(), false, label);
        if wall_frozen {
            rr.freeze_wall = Some(t0_us());
        }
        flute::verif::clock::set_jitter(Duration::from_micros(jitter_us));
        let mut last_t = 0u64;
        // listener churn (merged run): further listeners come and go between pushes, the OLDEST extra one is
        // removed first (so a new registration follows the removal of a listener that is not the latest); each
        // must see exactly the events the permanent listener sees while it is registered
        struct Extra {
            id: u64,
            events: Rc<RefCell<Vec<SessEvent>>>,
            main_from: usize,
            main_to: Option<usize>,
        }
        let churn = label == "merged";
        let mut extras: Vec<Extra> = Vec::new();
        // (event seq at the start of the call, simulated time, Some(session) for a push / None for a cleanup)
        let mut calls: Vec<(u64, u64, Option<usize>)> = Vec::new();
        for (n, (si, pi)) in order.iter().enumerate() {
            if churn {
                let main_len = rr.sess_events.borrow().len();
                if n % 5 == 1 && extras.iter().filter(|x| x.main_to.is_none()).count() < 4 {
                    let (l, ev) = Listener::new(ctx);
                    let id = rr.recv.as_mut().unwrap().add_listener(l);
                    extras.push(Extra { id, events: ev, main_from: main_len, main_to: None });
                }
                if n % 7 == 4 {
                    if let Some(x) = extras.iter_mut().find(|x| x.main_to.is_none()) {
                        rr.recv.as_mut().unwrap().remove_listener(x.id);
                        x.main_to = Some(main_len);
                    }
                }
            }
            // the clock and the cleanup schedule are those of the merged run, whichever sessions are pushed
            let (t, b) = &streams[*si][*pi];
            last_t = last_t.max(*t);
            if which.contains(si) {
                calls.push((ctx.borrow().next_seq(), *t, Some(*si)));
                let was_open = {
                    let ev = rr.sess_events.borrow();
                    ev.iter().rev().find(|e| e.key.endpoint == eps[*si] && e.key.tsi == sessions[*si].spec.tsi).map(|e| e.open).unwrap_or(false)
                };
                let n_ev = rr.sess_events.borrow().len();
                rr.push(&eps[*si], b, *t);
                // a packet carrying the close-session flag ends its session in that very call - whether the packet
                // itself is accepted or rejected: exactly one close per session end
                let a_flag = b.len() > 1 && b[1] & 0x02 != 0;
                if a_flag && was_open {
                    let closed = rr.sess_events.borrow()[n_ev..].iter().any(|e| !e.open && e.key.endpoint == eps[*si] && e.key.tsi == sessions[*si].spec.tsi);
                    if !closed {
                        violate(ctx, "C18/close-session-packet-does-not-close", "-", format!("{}: a packet of session {} (tsi {}) with the close-session flag was pushed while the session was open, no close was reported in that call", label, si, sessions[*si].spec.tsi));
                    }
                }
            }
            if cleanup_every > 0 && (n as u32 + 1) % cleanup_every == 0 {
                calls.push((ctx.borrow().next_seq(), last_t, None));
                rr.cleanup(last_t);
            }
        }
        // let every session time out, then drop
        if recv.session_timeout_ms.is_some() {
            calls.push((ctx.borrow().next_seq(), last_t + recv.session_timeout_ms.unwrap() * 1000 + 1, None));
            rr.cleanup(last_t + recv.session_timeout_ms.unwrap() * 1000 + 1);
            calls.push((ctx.borrow().next_seq(), last_t + recv.session_timeout_ms.unwrap() * 2000 + 10, None));
            rr.cleanup(last_t + recv.session_timeout_ms.unwrap() * 2000 + 10);
        }
        let ev_before = rr.sess_events.borrow().clone();
        check_listener(ctx, &ev_before, label, false);
        // with a session timeout every session has expired by now (two cleanups, one and two timeouts after the last
        // packet - whatever wall-clock instants the caller passes): each was reported closed BEFORE the receiver is dropped
        if recv.session_timeout_ms.is_some() {
            let mut open: BTreeMap<String, bool> = BTreeMap::new();
            for e in &ev_before {
                open.insert(format!("{:?}/{}", e.key.endpoint, e.key.tsi), e.open);
            }
            if let Some((k, _)) = open.iter().find(|(_, v)| **v) {
                violate(ctx, "C18/session-not-expired", "-", format!("{}: session {} is still open two session timeouts ({} ms) after the last packet although cleanup() ran", label, k, recv.session_timeout_ms.unwrap()));
            }
        }
        // a session is closed by EXPIRY (a close reported during a cleanup call) only when it has been silent for the
        // session timeout: every packet pushed for it counts as activity, also one that is discarded as already received
        if let Some(to_ms) = recv.session_timeout_ms {
            for e in ev_before.iter().filter(|e| !e.open) {
                let call = match calls.iter().rposition(|c| c.0 < e.seq) {
                    Some(i) => i,
                    None => continue,
                };
                if calls[call].2.is_some() {
                    continue; // closed inside a push: a close-session packet
                }
                let si = match (0..sessions.len()).find(|i| eps[*i] == e.key.endpoint && sessions[*i].spec.tsi == e.key.tsi) {
                    Some(i) => i,
                    None => continue,
                };
                let last_push = calls[..call].iter().rev().find(|c| c.2 == Some(si)).map(|c| c.1);
                if let Some(lp) = last_push {
                    let silent_us = calls[call].1.saturating_sub(lp);
                    // allowance for the per-read clock jitter of the simulated monotonic clock
                    if silent_us + 50 * jitter_us + 1000 < to_ms * 1000 {
                        violate(
                            ctx,
                            "C18/session-expired-while-active",
                            "-",
                            format!("{}: session {} (tsi {}) was reported closed by a cleanup only {} us after its last packet was pushed, session timeout {} ms", label, si, sessions[si].spec.tsi, silent_us, to_ms),
                        );
                        break;
                    }
                }
            }
        }
        rr.drop_receiver();
        flute::verif::clock::set_jitter(Duration::ZERO);
        let ev = rr.sess_events.borrow().clone();
        check_listener(ctx, &ev, label, true);
        for (k, x) in extras.iter().enumerate() {
            let want: Vec<(bool, String)> = ev[x.main_from.min(ev.len())..x.main_to.unwrap_or(ev.len()).min(ev.len())].iter().map(|e| (e.open, format!("{:?}", e.key))).collect();
            let got: Vec<(bool, String)> = x.events.borrow().iter().map(|e| (e.open, format!("{:?}", e.key))).collect();
            if want != got {
                violate(
                    ctx,
                    "C18/listener-missed-or-spurious-event",
                    "-",
                    format!(
                        "{}: listener #{} (id {}, registered while the permanent listener saw its events {}..{}) saw {} events, the permanent listener {} in that interval; first difference at {:?}",
                        label,
                        k,
                        x.id,
                        x.main_from,
                        x.main_to.map(|v| v.to_string()).unwrap_or_else(|| "end".into()),
                        got.len(),
                        want.len(),
                        want.iter().zip(got.iter()).position(|(a, b)| a != b)
                    ),
                );
                break;
            }
        }
        if !extras.is_empty() {
            ctx.borrow_mut().count_fault("listener-churn");
        }
        (monitor, ev)
    };
    // merged order: seeded interleaving preserving the order inside each session
    let mut idx = vec![0usize; streams.len()];
    let mut order: Vec<(usize, usize)> = Vec::new();
    loop {
        let alive: Vec<usize> = (0..streams.len()).filter(|i| idx[*i] < streams[*i].len()).collect();
        if alive.is_empty() {
            break;
        }
        let c = ctx.borrow_mut().pick("interleave", alive.len() as u64) as usize;
        let s = alive[c];
        order.push((s, idx[s]));
        idx[s] += 1;
    }
    ctx.borrow_mut().count_fault("interleave");
    let all: Vec<usize> = (0..streams.len()).collect();
    let (merged, _) = run(&all, &order, "merged");
    // a per-read clock jitter makes expiry at the boundary depend on how many sessions are examined in one
    // cleanup call: the metamorphic comparison is then skipped (the listener oracle still applies)
    let comparable = !(jitter_us > 0 && recv.session_timeout_ms.is_some());
    if !comparable {
        ctx.borrow_mut().note("relax:no-metamorphic-comparison-under-jitter");
    }
    for i in 0..streams.len() {
        if !comparable {
            break;
        }
        // with cleanup cadence tied to the global packet count the isolated run must see cleanup at the
        // same points of ITS stream: keep the positions of the merged order
        let (alone, _) = run(&[i], &order, &format!("alone{}", i));
        let a = writer_view(&alone, &eps[i], sessions[i].spec.tsi);
        let m = writer_view(&merged, &eps[i], sessions[i].spec.tsi);
        if a != m {
            violate(
                ctx,
                "C18/interleaving-changes-delivery",
                "-",
                format!(
                    "session {} ({:?}, tsi {}): pushed alone the writers see {:?}; interleaved with {} other session(s) they see {:?}",
                    i, sessions[i].spec.endpoint, sessions[i].spec.tsi, a, streams.len() - 1, m
                ),
            );
        }
    }
    // a session whose last data packet carries the A flag delivers all its objects (clean channel, no session
    // timeout in the way): the payload of the flagged packet counts
    if recv.session_timeout_ms.is_none() {
        for i in flag_last {
            if closes.iter().any(|(c, _)| c == i) || sess[*i].trace.pkts.last().map(|p| p.dec.toi == 0 && sess[*i].trace.pkts.len() < 2).unwrap_or(true) {
                continue;
            }
            for o in &sess[*i].objs {
                let st = merged.state.borrow();
                let ok = st.writers.iter().any(|w| w.endpoint == eps[*i] && w.tsi == sessions[*i].spec.tsi && w.toi == o.toi && w.terminal == Some(Terminal::Complete) && w.data == o.content);
                // (objects with several transfers / carousel may be cut by the close: only single-transfer objects)
                let single = sessions[*i].objects.get(o.idx).map(|x| x.max_transfer_count <= 1 && x.carousel.is_none()).unwrap_or(false);
                if !ok && single && sess[*i].trace.finished {
                    violate(
                        ctx,
                        "C18/flagged-data-packet-payload-lost",
                        "-",
                        format!("session {} (tsi {}): its last packet carries the close-session flag AND data; toi={} was not delivered although every packet was pushed", i, sessions[*i].spec.tsi, o.toi),
                    );
                }
            }
        }
        if !flag_last.is_empty() {
            ctx.borrow_mut().count_fault("close-flag-on-data-packet");
        }
    }
    // callbacks carry the session's own endpoint and TSI: every writer of the merged run belongs to one session
    for w in merged.state.borrow().writers.iter() {
        let owner = (0..sessions.len()).find(|i| eps[*i] == w.endpoint && sessions[*i].spec.tsi == w.tsi);
        match owner {
            None => violate(ctx, "C18/writer-for-unknown-session", "-", format!("writer with endpoint {:?} tsi {} matches no session", w.endpoint, w.tsi)),
            Some(i) => {
                if !sess[i].objs.iter().any(|o| o.toi == w.toi) {
                    violate(ctx, "C18/writer-wrong-session", "-", format!("writer toi={} reported for session {} which has no such object", w.toi, i));
                }
            }
        }
    }
    ctx.borrow_mut().nontrivial = true;
}

struct FilterModel {
    all: BTreeMap<usize, u64>,
    tsi: BTreeMap<(u64, usize), u64>,
    enabled: bool,
}

impl Default for FilterModel {
    fn default() -> Self {
        FilterModel { all: BTreeMap::new(), tsi: BTreeMap::new(), enabled: true }
    }
}

impl FilterModel {
    fn apply(&mut self, op: &FilterOp) {
        match op {
            FilterOp::AddAll(e) => *self.all.entry(*e).or_insert(0) += 1,
            FilterOp::RemoveAll(e) => {
                if let Some(c) = self.all.get_mut(e) {
                    *c = c.saturating_sub(1);
                }
            }
            FilterOp::AddTsi(e, t) => *self.tsi.entry((*t, *e)).or_insert(0) += 1,
            FilterOp::RemoveTsi(e, t) => {
                if let Some(c) = self.tsi.get_mut(&(*t, *e)) {
                    *c = c.saturating_sub(1);
                }
            }
            FilterOp::SetFiltering(b) => self.enabled = *b,
        }
    }
    /// `regs`: the endpoints the operations refer to by index; `p`: the endpoint of the probed packet (one of them, or
    /// one that was never registered: another port, another source, another group)
    fn accepts(&self, regs: &[EndpointSpec], p: &EndpointSpec, tsi: u64) -> bool {
        if !self.enabled {
            return true;
        }
        // listen-all: the exact endpoint only
        if self.all.iter().any(|(e, c)| *c > 0 && regs[*e] == *p) {
            return true;
        }
        // (endpoint, TSI): the exact endpoint, or - source address wildcarded - an entry without source accepts packets
        // with any source on the SAME group address and port
        self.tsi.iter().any(|((t, e), c)| {
            let r = &regs[*e];
            *c > 0 && *t == tsi && (r == p || (r.src.is_none() && r.dst == p.dst && r.port == p.port))
        })
    }
}

/// Endpoints packets are probed with: the four the operations register, and four that are never registered.
fn probe_endpoints() -> Vec<EndpointSpec> {
    let mut v = endpoints();
    v.push(EndpointSpec { src: None, dst: "224.0.0.1".into(), port: 3401 });
    v.push(EndpointSpec { src: Some("10.0.0.1".into()), dst: "224.0.0.1".into(), port: 3401 });
    v.push(EndpointSpec { src: Some("10.0.0.2".into()), dst: "224.0.0.1".into(), port: 3400 });
    v.push(EndpointSpec { src: Some("10.0.0.1".into()), dst: "224.0.0.3".into(), port: 3400 });
    v
}

fn run_filter(seqs: &[Vec<FilterOp>], ctx: &Ctx) {
    let eps: Vec<flute::core::UDPEndpoint> = endpoints().iter().map(|e| e.build()).collect();
    let regs = endpoints();
    let pspecs = probe_endpoints();
    let peps: Vec<flute::core::UDPEndpoint> = pspecs.iter().map(|e| e.build()).collect();
    let mut probes = 0u64;
    for seq in seqs {
        let recv = RecvSpec::basic();
        let monitor = Monitor::new_nodata(ctx, false, "f");
        let mut rr = RecvRun::new(&recv, ctx, monitor, true, "f");
        let mut model = FilterModel::default();
        let mut toi = 1u128;
        for (step, op) in seq.iter().enumerate() {
            {
                let r = rr.recv.as_mut().unwrap();
                match op {
                    FilterOp::AddTsi(e, t) => r.add_listen_tsi(eps[*e].clone(), *t),
                    FilterOp::RemoveTsi(e, t) => r.remove_listen_tsi(&eps[*e], *t),
                    FilterOp::AddAll(e) => r.add_listen_all_tsi(eps[*e].clone()),
                    FilterOp::RemoveAll(e) => r.remove_listen_all_tsi(&eps[*e]),
                    FilterOp::SetFiltering(b) => r.set_tsi_filtering(*b),
                }
            }
            model.apply(op);
            // probe with a packet of every (endpoint, TSI): processed <=> a new object appears
            for e in 0..peps.len() {
                for tsi in [1u64, 2] {
                    toi += 1;
                    let (tl, ol) = wire::field_lens(tsi, toi);
                    let pkt = wire::encode(&Build {
                        cci_words: 1,
                        tsi,
                        tsi_len: tl,
                        toi,
                        toi_len: ol,
                        cp: 0,
                        fti: Some(Fti { fec: 0, transfer_length: 64, e: 16, b: Some(64), max_n: None, instance_id: None, z: None, n: None, al: None }),
                        sbn: 0,
                        esi: 1,
                        payload: vec![7; 16],
                        ..Default::default()
                    });
                    let before = rr.nb_objects();
                    rr.push(&peps[e], &pkt, t0_us() + probes);
                    let processed = rr.nb_objects() > before;
                    probes += 1;
                    let want = model.accepts(&regs, &pspecs[e], tsi);
                    if processed != want {
                        violate(
                            ctx,
                            if processed { "C18/filter-accepts-unlisted" } else { "C18/filter-drops-listed" },
                            "-",
                            format!(
                                "after {:?} a packet on endpoint #{} ({:?}) with TSI {} is {} but the filter state says {}",
                                &seq[..=step], e, pspecs[e], tsi,
                                if processed { "processed" } else { "skipped" },
                                if want { "accept" } else { "skip" }
                            ),
                        );
                        return;
                    }
                }
            }
            // the filter applies to EVERY packet: a close-session packet of a pair that is rejected now (its session may
            // still be alive from the time it was accepted) is skipped like any other - no session is reported closed
            for e in 0..peps.len() {
                for tsi in [1u64, 2] {
                    if model.accepts(&regs, &pspecs[e], tsi) {
                        continue;
                    }
                    let n_before = rr.sess_events.borrow().len();
                    rr.push(&peps[e], &close_packet(tsi), t0_us() + probes);
                    probes += 1;
                    let closed: Vec<String> = rr.sess_events.borrow()[n_before..].iter().map(|ev| format!("{} {:?} tsi {}", if ev.open { "open" } else { "closed" }, ev.key.endpoint, ev.key.tsi)).collect();
                    if !closed.is_empty() {
                        violate(
                            ctx,
                            "C18/filter-accepts-unlisted",
                            "close-session-packet",
                            format!("after {:?} a close-session packet on endpoint #{} ({:?}) with TSI {} - a pair the filter rejects - was processed: listener events {:?}", &seq[..=step], e, pspecs[e], tsi, closed),
                        );
                        return;
                    }
                }
            }
        }
        rr.drop_receiver();
    }
    let mut c = ctx.borrow_mut();
    c.nontrivial = true;
    c.note_n("filter-probes", probes);
    c.note_n("filter-sequences", seqs.len() as u64);
}

pub fn run(scn: &Scn, ctx: &Ctx, scratch: &Path) {
    match scn {
        Scn::Demux { sessions, recv, jitter_us, cleanup_every, closes, flag_last, damaged_close, wall_frozen } => run_demux(sessions, recv, *jitter_us, *cleanup_every, closes, flag_last, damaged_close, *wall_frozen, ctx, scratch),
        Scn::Filter { seqs } => run_filter(seqs, ctx),
    }
}

impl Prop for C18 {
    fn id(&self) -> &'static str {
        "C18"
    }
    fn info(&self) -> PropInfo {
        PropInfo {
            level: "exploration",
            rule: "part 1 (enumerated): ALL sequences of add/remove listen operations (24 operations: add/remove (endpoint, TSI) and add/remove all-TSI over 2 endpoints x source/no-source x 2 TSIs) up to depth 3 (quick, 13 824 sequences) / depth 4 (thorough, 331 776), every prefix probed with a packet of every (endpoint, TSI) against a saturating-counter model; deeper sequences sampled. part 2: 2-4 sessions from independent real senders (distinct and equal TSIs on distinct endpoints, with/without source address, same TOIs and locations in different sessions) merged by a seeded interleaver (decisions on the choice tape) into one MultiReceiver vs each stream pushed alone at the same instants; close-session packets injected at seeded points; session timeouts on the simulated monotonic clock with a per-read jitter (a real clock moves between two reads inside one call); cleanup cadence. Oracle: per-session writer views identical (metamorphic), callbacks carry the right endpoint/TSI, listener open/close alternate per key starting with open and are balanced after drop. Non-trivial: every run.",
            assumptions: vec!["'removed while absent' is a no-op (saturating counters)", "hook H1 jitter models a monotonic clock advancing between two reads"],
            real: vec!["MultiReceiver, TSIFilter, Receiver, listener dispatch", "Sender (part 2)"],
            stub: vec!["network interleaving", "clocks", "monitoring writer and listener"],
        }
    }
    fn runs(&self, tier: Tier) -> u64 {
        n_filter_runs(tier)
            + match tier {
                Tier::Quick => 12_000,
                Tier::Thorough => 100_000,
            }
    }
    fn generate(&self, idx: u64, tier: Tier, rng: &mut Rng) -> Value {
        serde_json::to_value(gen(idx, rng, tier)).unwrap()
    }
    fn run(&self, scn: &Value, ctx: &Ctx, scratch: &Path) {
        match serde_json::from_value::<Scn>(scn.clone()) {
            Ok(s) => run(&s, ctx, scratch),
            Err(e) => ctx.borrow_mut().note(&format!("bad-scenario:{}", e)),
        }
    }
    fn exhaustive(&self, tier: Tier) -> Option<String> {
        Some(format!("all filter operation sequences up to depth {}", if tier == Tier::Quick { 3 } else { 4 }))
    }
    fn shrink(&self, scn: &Value) -> Vec<Value> {
        let s: Scn = match serde_json::from_value(scn.clone()) {
            Ok(s) => s,
            Err(_) => return vec![],
        };
        let mut out = Vec::new();
        match &s {
            Scn::Filter { seqs } => {
                if seqs.len() > 1 {
                    let h = seqs.len() / 2;
                    out.push(Scn::Filter { seqs: seqs[..h].to_vec() });
                    out.push(Scn::Filter { seqs: seqs[h..].to_vec() });
                } else if let Some(q) = seqs.first() {
                    for i in 0..q.len() {
                        let mut n = q.clone();
                        n.remove(i);
                        out.push(Scn::Filter { seqs: vec![n] });
                    }
                }
            }
            Scn::Demux { sessions, recv, jitter_us, cleanup_every, closes, flag_last, damaged_close, wall_frozen } => {
                if sessions.len() > 1 {
                    for i in 0..sessions.len() {
                        let mut v = sessions.clone();
                        v.remove(i);
                        let c: Vec<(usize, u32)> = closes.iter().filter(|(s, _)| *s != i).map(|(s, k)| (if *s > i { s - 1 } else { *s }, *k)).collect();
                        let fl: Vec<usize> = flag_last.iter().filter(|s| **s != i).map(|s| if *s > i { s - 1 } else { *s }).collect();
                        out.push(Scn::Demux { sessions: v, recv: recv.clone(), jitter_us: *jitter_us, cleanup_every: *cleanup_every, closes: c, flag_last: fl, damaged_close: damaged_close.iter().filter(|s| **s != i).map(|s| if *s > i { s - 1 } else { *s }).collect(), wall_frozen: *wall_frozen });
                    }
                }
                for i in 0..closes.len() {
                    let mut c = closes.clone();
                    c.remove(i);
                    out.push(Scn::Demux { sessions: sessions.clone(), recv: recv.clone(), jitter_us: *jitter_us, cleanup_every: *cleanup_every, closes: c, flag_last: flag_last.clone(), damaged_close: damaged_close.clone(), wall_frozen: *wall_frozen });
                }
                if *jitter_us != 0 {
                    out.push(Scn::Demux { sessions: sessions.clone(), recv: recv.clone(), jitter_us: 0, cleanup_every: *cleanup_every, closes: closes.clone(), flag_last: flag_last.clone(), damaged_close: damaged_close.clone(), wall_frozen: *wall_frozen });
                }
                if *cleanup_every > 1 {
                    out.push(Scn::Demux { sessions: sessions.clone(), recv: recv.clone(), jitter_us: *jitter_us, cleanup_every: 1, closes: closes.clone(), flag_last: flag_last.clone(), damaged_close: damaged_close.clone(), wall_frozen: *wall_frozen });
                }
                for (i, s) in sessions.iter().enumerate() {
                    for c in shrink_sender_scn(s).into_iter().take(12) {
                        let mut v = sessions.clone();
                        v[i] = c;
                        out.push(Scn::Demux { sessions: v, recv: recv.clone(), jitter_us: *jitter_us, cleanup_every: *cleanup_every, closes: closes.clone(), flag_last: flag_last.clone(), damaged_close: damaged_close.clone(), wall_frozen: *wall_frozen });
                    }
                }
            }
        }
        out.into_iter().map(|s| serde_json::to_value(s).unwrap()).collect()
    }
}
