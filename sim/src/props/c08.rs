//! C08 — each transfer carries every source symbol once at RFC offsets; end flags last.

use super::common::*;
use super::sendview::*;
use crate::ctx::{violate, Ctx};
use crate::engine::*;
use crate::fdtview;
use crate::rng::Rng;
use crate::sdrv::*;
use crate::spec::*;
use crate::wire;
use serde::{Deserialize, Serialize};
use serde_json::Value;
use std::collections::{BTreeMap, BTreeSet};
use std::path::Path;

#[derive(Clone, Debug, PartialEq, Serialize, Deserialize)]
pub struct Scn {
    pub sender: SenderScn,
}

pub struct C08;

/// Sender histories with transfers, carousel, removal at a packet index and a close-session packet.
pub fn gen_history(rng: &mut Rng, max_symbols: u64, with_removal: bool) -> SenderScn {
    let soti = gen_sender_oti(rng, None);
    let mut spec = gen_sender_spec(rng, soti);
    spec.fdt_carousel = CarouselSpec::DelayMs(*rng.pick(&[50u64, 1000, 1000]));
    let n = *rng.pick(&[1usize, 1, 2, 3]);
    let mut objects = Vec::new();
    let mut ops = Vec::new();
    for i in 0..n {
        let mut o = gen_object(rng, i, &spec, max_symbols / n as u64 + 4);
        if rng.chance(0.25) {
            o.cenc = *rng.pick(&[CencSpec::Zlib, CencSpec::Deflate, CencSpec::Gzip]);
            // (from a stream: handed over pre-encoded by the application)
            o.source = match &o.source {
                SourceSpec::Stream(s) | SourceSpec::StreamAt(s, _) | SourceSpec::StreamFailingSeek(s, _) => SourceSpec::PreEncodedStream(s.clone()),
                _ => SourceSpec::Buffer,
            };
        }
        if rng.chance(0.35) {
            o.carousel = Some(if rng.chance(0.5) {
                CarouselSpec::DelayMs(*rng.pick(&[0u64, 1, 20, 200]))
            } else {
                CarouselSpec::IntervalMs(*rng.pick(&[0u64, 1, 20, 200]))
            });
        }
        o.immediate_stop = *rng.pick(&[None, None, Some(false), Some(true)]);
        objects.push(o);
        ops.push(TimedOp { when: When::AtUs(0), op: Op::Add(i) });
    }
    ops.push(TimedOp { when: When::AtUs(0), op: Op::Publish });
    for i in 0..n {
        let carousel = objects[i].carousel.is_some();
        if carousel || (with_removal && rng.chance(0.5)) {
            let k = if rng.chance(0.7) { rng.range(1, 60) } else { rng.range(60, 400) };
            ops.push(TimedOp { when: When::AfterPkt(k), op: Op::Remove(i) });
            if rng.chance(0.5) {
                ops.push(TimedOp { when: When::AfterPkt(k), op: Op::Publish });
            }
        }
        if carousel {
            // safety net: a carousel object is always removed eventually
            ops.push(TimedOp { when: When::AtUs(2_000_000), op: Op::Remove(i) });
        }
    }
    // a stoppable object removed at the very start of a transfer: after the FDT packets that announce it (or a pending
    // publication), before - or right after - its first packet
    if rng.chance(0.12) {
        objects[0].immediate_stop = Some(true);
        ops.retain(|t| t.op != Op::Remove(0));
        ops.push(TimedOp { when: When::AfterPkt(rng.range(1, 4)), op: Op::Remove(0) });
    }
    // set_complete(): only add_object is refused afterwards, everything queued goes on as before
    if rng.chance(0.08) {
        let when = if rng.chance(0.5) { When::AtUs(0) } else { When::AfterPkt(rng.range(1, 60)) };
        ops.push(TimedOp { when, op: Op::SetComplete });
    }
    ops.push(TimedOp { when: When::AtUs(2_500_000), op: Op::CloseSession });
    let poll = PollSpec {
        start_us: 0,
        gap: match rng.below(3) {
            0 => GapSpec::FixedUs(1000),
            1 => GapSpec::FixedUs(rng.range(1, 50_000)),
            _ => GapSpec::RandomUs { seed: rng.next_u64(), min: 0, max: rng.range(1, 30_000) },
        },
        burst: if rng.chance(0.5) { None } else { Some(rng.range(1, 20) as u32) },
        max_polls: 60_000,
        max_pkts: 12_000,
        idle_polls_after_done: 1,
    };
    SenderScn { spec, objects, ops, poll, snapshots: false }
}

/// One object with MANY source blocks (block numbers beyond 8 bits / beyond the receiver's preallocation).
pub fn gen_many_blocks(rng: &mut Rng) -> SenderScn {
    let mut spec = SenderSpec::basic(OtiSpec::new(Scheme::NoCode, 1400, 64, 0, true));
    spec.interleave = rng.range(1, 4) as u8;
    spec.queues = vec![(0, 1)];
    let (scheme, e, b, blocks) = match rng.below(3) {
        0 => (Scheme::Raptor, *rng.pick(&[1u16, 2, 4]), 4u32, rng.range(257, 300)),
        1 => (Scheme::NoCode, *rng.pick(&[1u16, 2, 16]), 1u32, rng.range(4098, 4300)),
        _ => (Scheme::Rs28Us, *rng.pick(&[1u16, 4]), *rng.pick(&[1u32, 2]), rng.range(257, 700)),
    };
    let len = (blocks * b as u64 * e as u64 - rng.range(0, e as u64 - 1)) as usize;
    let mut o = ObjectSpec::basic(len, rng.next_u64(), 0);
    o.oti = Some(OtiSpec::new(scheme, e, b, if scheme == Scheme::NoCode { 0 } else { 1 }, rng.chance(0.5)));
    let ops = vec![TimedOp { when: When::AtUs(0), op: Op::Add(0) }, TimedOp { when: When::AtUs(0), op: Op::Publish }];
    let poll = PollSpec { start_us: 0, gap: GapSpec::FixedUs(1000), burst: None, max_polls: 200, max_pkts: 12_000, idle_polls_after_done: 1 };
    SenderScn { spec, objects: vec![o], ops, poll, snapshots: false }
}

pub fn gen(rng: &mut Rng, tier: Tier) -> Scn {
    if rng.chance(0.006) {
        return Scn { sender: gen_many_blocks(rng) };
    }
    Scn { sender: gen_history(rng, if tier == Tier::Quick { 120 } else { 600 }, true) }
}

pub fn run(scn: &Scn, ctx: &Ctx, scratch: &Path) {
    let drv = match Driver::new(&scn.sender, ctx, scratch) {
        Ok(d) => d,
        Err(e) => {
            ctx.borrow_mut().note(&format!("sender-build-failed:{}", truncate(&e, 40)));
            return;
        }
    };
    let trace = drv.run(&scn.sender);
    for e in &trace.wire_errors {
        violate(ctx, "C08/wire-discrepancy", "-", e.clone());
    }
    if trace.pkts.iter().any(|p| p.dec.toi != 0) {
        ctx.borrow_mut().nontrivial = true;
    }
    oracle(&scn.sender, ctx, &trace);
}

pub fn oracle(scn: &SenderScn, ctx: &Ctx, trace: &SenderTrace) {
    let tr = transfers(scn, trace);
    for e in &tr.event_errors {
        violate(ctx, "C08/transfer-events", "-", e.clone());
    }
    for i in &tr.orphans {
        let p = &trace.pkts[*i];
        violate(
            ctx,
            "C08/packet-outside-transfer",
            "-",
            format!("packet {} toi={} sbn={} esi={} lies outside every Start/StopTransfer span", i, p.dec.toi, p.dec.sbn, p.dec.esi),
        );
    }
    let txs = fdtview::fdt_transmissions(&trace.pkts);
    // close-session flag only on the explicit close-session packet
    for p in &trace.pkts {
        let is_close_pkt = trace
            .ops
            .iter()
            .any(|r| r.op == Op::CloseSession && r.pkts_before == p.idx);
        if p.dec.close_session && !is_close_pkt {
            violate(ctx, "C08/close-session-flag", "-", format!("packet {} toi={} carries the close-session flag", p.idx, p.dec.toi));
        }
        if is_close_pkt && !p.dec.close_session {
            violate(ctx, "C08/close-session-flag", "missing", format!("the close-session packet {} lacks the A flag", p.idx));
        }
    }
    // "the single packet sent after the object was removed": an object that may be stopped (already
    // transferred once, or immediate stop allowed) emits at most one more packet, flagged
    for (i, o) in scn.objects.iter().enumerate() {
        let (toi, r) = match (trace.obj_toi[i], removal_seq(trace, i)) {
            (Some(t), Some(r)) => (t, r),
            _ => continue,
        };
        let completed = tr.list.iter().filter(|t| t.obj == i && t.stop_seq.map(|s| s < r).unwrap_or(false)).count();
        if !(o.immediate_stop == Some(true) || completed > 0) {
            continue;
        }
        let after: Vec<&Emitted> = trace.pkts.iter().filter(|p| p.dec.toi == toi && p.seq > r).collect();
        if after.len() > 1 {
            violate(
                ctx,
                "C08/packets-after-removal",
                "-",
                format!("toi={}: {} packets of the object after remove_object ({} transfers completed before), expected the single close-object packet", toi, after.len(), completed),
            );
        }
        if let Some(p) = after.first() {
            if !p.dec.close_object {
                violate(ctx, "C08/packet-after-removal-without-close-flag", "-", format!("toi={}: packet {} sent after remove_object lacks the close-object flag", toi, p.idx));
            }
        }
        // ... and that single packet IS sent when the removal cuts a transfer that still had symbols to send
        // (the length of a transfer is the one of an earlier complete transfer of the same object)
        if after.is_empty() && trace.finished {
            let mine: Vec<&Transfer> = tr.list.iter().filter(|t| t.obj == i).collect();
            let cut = mine.iter().find(|t| t.start_seq < r && t.stop_seq.map(|s| s > r).unwrap_or(true));
            let full = mine.iter().filter(|t| t.stop_seq.map(|s| s < r).unwrap_or(false)).map(|t| t.pkts.len()).max();
            // (a transfer that had started but not yet sent anything still has all its symbols to send)
            let full = match (cut, full) {
                (Some(c), None) if c.pkts.is_empty() && o.len > 0 => Some(1usize.max(o.len / 1_000_000)),
                _ => full,
            };
            if let (Some(c), Some(n)) = (cut, full) {
                if c.pkts.len() < n && (!c.pkts.is_empty() || o.len > 0) {
                    violate(
                        ctx,
                        "C08/no-close-packet-after-removal",
                        "-",
                        format!(
                            "toi={}: removed during transfer {} after {} of its {} packets, yet no further packet (the one carrying the close-object flag) was sent: the object ends without a close-object packet",
                            toi, c.n, c.pkts.len(), n
                        ),
                    );
                }
            }
        }
    }
    for t in &tr.list {
        let o = &scn.objects[t.obj];
        let oti = o.eff_oti(&scn.spec.oti);
        let e = oti.e as u64;
        let removed = removal_seq(trace, t.obj);
        let removed_during = removed.map(|r| r > t.start_seq && t.stop_seq.map(|s| r < s).unwrap_or(true)).unwrap_or(false);
        let removed_before_end = removed.map(|r| t.stop_seq.map(|s| r < s).unwrap_or(true)).unwrap_or(false);
        // transfer length: in-band FTI, else the sender's FDT, else the object length (cenc null)
        let tl_inband = t.pkts.iter().filter_map(|i| trace.pkts[*i].dec.fti.as_ref().map(|f| f.transfer_length)).next();
        let tl_fdt = txs
            .iter()
            .filter_map(|x| x.doc.as_ref())
            .flat_map(|d| d.files.iter())
            .find(|f| f.toi == t.toi)
            .and_then(|f| f.transfer_length);
        let tl = match tl_inband.or(tl_fdt).or(if o.cenc == CencSpec::Null { Some(o.len as u64) } else { None }) {
            Some(x) => x,
            None => {
                ctx.borrow_mut().note("skip:transfer-length-unknown");
                continue;
            }
        };
        if let (Some(a), Some(b)) = (tl_inband, tl_fdt) {
            if a != b {
                violate(ctx, "C08/transfer-length-mismatch", "-", format!("toi={} EXT_FTI says {} but the FDT says {}", t.toi, a, b));
            }
        }
        if o.cenc == CencSpec::Null && tl != o.len as u64 {
            violate(ctx, "C08/transfer-length-mismatch", "object", format!("toi={} transfer length {} but the object has {} bytes", t.toi, tl, o.len));
        }
        let part = wire::partition(oti.b as u64, tl, e);
        let ks: Vec<u64> = (0..part.3).map(|s| wire::block_k(part, s)).collect();
        let complete_transfer = t.stop_seq.is_some() && !removed_during;
        let last_pkt = t.pkts.last().copied();
        // --- flags
        let is_final_transfer = o.carousel.is_none() && t.n as u32 == o.max_transfer_count;
        for i in &t.pkts {
            let p = &trace.pkts[*i];
            if !p.dec.close_object {
                continue;
            }
            let after_removal = removed.map(|r| p.seq > r).unwrap_or(false);
            let ok = (tl == 0 && t.pkts.len() == 1)
                || (is_final_transfer && Some(*i) == last_pkt && t.stop_seq.is_some())
                || after_removal;
            if !ok {
                violate(
                    ctx,
                    "C08/close-object-flag",
                    if Some(*i) != last_pkt { "not-last-packet" } else { "not-final-transfer" },
                    format!(
                        "toi={} transfer {} packet {} (sbn={} esi={}) carries the close-object flag; final_transfer={} last_packet={} removed={}",
                        t.toi, t.n, i, p.dec.sbn, p.dec.esi, is_final_transfer, Some(*i) == last_pkt, removed.is_some()
                    ),
                );
            }
        }
        if removed_before_end {
            ctx.borrow_mut().note("transfers-cut-by-removal");
        }
        // --- symbol structure
        let mut seen: BTreeMap<(u32, u32), usize> = BTreeMap::new();
        let mut last_esi: BTreeMap<u32, u32> = BTreeMap::new();
        let mut repair: BTreeMap<u32, u64> = BTreeMap::new();
        let mut syms: BTreeMap<(u32, u32), Vec<u8>> = BTreeMap::new();
        // RaptorQ with sub-blocking: symbols per block, de-interleaved once the transfer is complete
        let mut rq_blocks: BTreeMap<u32, Vec<Option<Vec<u8>>>> = BTreeMap::new();
        for i in &t.pkts {
            let p = &trace.pkts[*i];
            if tl == 0 {
                if !p.dec.payload.is_empty() {
                    violate(ctx, "C08/empty-object-payload", "-", format!("toi={} empty object packet has {} payload bytes", t.toi, p.dec.payload.len()));
                }
                continue;
            }
            let sbn = p.dec.sbn;
            let esi = p.dec.esi;
            if sbn as u64 >= part.3 {
                violate(ctx, "C08/sbn-out-of-range", "-", format!("toi={} packet {} sbn={} but the object has {} blocks", t.toi, i, sbn, part.3));
                continue;
            }
            let k = ks[sbn as usize];
            if let Some(prev) = seen.insert((sbn, esi), *i) {
                violate(
                    ctx,
                    if (esi as u64) < k { "C08/source-symbol-twice" } else { "C08/repair-symbol-twice" },
                    "-",
                    format!("toi={} transfer {}: symbol ({},{}) emitted at packets {} and {}", t.toi, t.n, sbn, esi, prev, i),
                );
            }
            if let Some(le) = last_esi.get(&sbn) {
                if esi <= *le {
                    violate(ctx, "C08/esi-not-increasing", "-", format!("toi={} transfer {} block {}: esi {} after {}", t.toi, t.n, sbn, esi, le));
                }
            }
            last_esi.insert(sbn, esi);
            if let Some(sbl) = p.dec.sbl {
                if sbl as u64 != k {
                    violate(ctx, "C08/source-block-length-field", "-", format!("toi={} block {}: source block length field {} but the partition gives {}", t.toi, sbn, sbl, k));
                }
            }
            if (esi as u64) < k && oti.scheme == Scheme::RaptorQ && oti.sub_blocks > 1 {
                // RFC 6330 sub-blocking (N > 1): a symbol is the concatenation of one sub-symbol of each of the N
                // sub-blocks of its source block, not a contiguous slice (own implementation of s4.4.1.2)
                let sizes = wire::rq_subsymbol_sizes(e as usize, oti.sub_blocks as usize, oti.al as usize);
                let first = (wire::block_first_symbol(part, sbn as u64) * e) as usize;
                let mut rq_syms = rq_blocks.remove(&sbn).unwrap_or_else(|| vec![None; k as usize]);
                rq_syms[esi as usize] = Some(p.dec.payload.clone());
                rq_blocks.insert(sbn, rq_syms);
                if p.dec.payload.len() as u64 != e {
                    violate(ctx, "C08/source-symbol-size", "raptorq-sub-blocks", format!("toi={} RaptorQ N={} symbol ({},{}) has {} payload bytes, E={}", t.toi, oti.sub_blocks, sbn, esi, p.dec.payload.len(), e));
                } else if o.cenc == CencSpec::Null {
                    let content = o.content();
                    let end = (first + (k * e) as usize).min(content.len());
                    let want = wire::rq_interleave(&content[first.min(end)..end], k as usize, &sizes);
                    if want[esi as usize] != p.dec.payload {
                        violate(
                            ctx,
                            "C08/source-symbol-content",
                            "raptorq-sub-blocks",
                            format!("toi={} RaptorQ N={} Al={} symbol ({},{}) is not the RFC 6330 s4.4.1.2 symbol of its source block (sub-symbol sizes {:?})", t.toi, oti.sub_blocks, oti.al, sbn, esi, sizes),
                        );
                    }
                }
            } else if (esi as u64) < k {
                syms.insert((sbn, esi), p.dec.payload.clone());
                // payload size: E, except the very last symbol of the object (short or zero padded)
                let sym_index = wire::block_first_symbol(part, sbn as u64) + esi as u64;
                let off = sym_index * e;
                let want = (tl - off).min(e);
                let plen = p.dec.payload.len() as u64;
                let raptor_short_block = oti.scheme == Scheme::Raptor && {
                    let first = wire::block_first_symbol(part, sbn as u64) * e;
                    let blen = (tl - first).min(k * e);
                    blen % e != 0 || blen != k * e
                };
                if !(plen == want || (plen == e && p.dec.payload[want as usize..].iter().all(|b| *b == 0))) {
                    violate(
                        ctx,
                        "C08/source-symbol-size",
                        if raptor_short_block { "raptor-short-block-resymbolized" } else { "-" },
                        format!(
                            "toi={} {:?} symbol ({},{}) has {} payload bytes; the E-byte slice at offset {} of a {}-byte object has {} (E={})",
                            t.toi, oti.scheme, sbn, esi, plen, off, tl, want, e
                        ),
                    );
                }
                if o.cenc == CencSpec::Null && (off as usize) < o.len {
                    let content = o.content();
                    let end = ((off + want) as usize).min(content.len());
                    let slice = &content[off as usize..end];
                    if p.dec.payload.len() < slice.len() || &p.dec.payload[..slice.len()] != slice {
                        violate(
                            ctx,
                            "C08/source-symbol-content",
                            if raptor_short_block { "raptor-short-block-resymbolized" } else { "-" },
                            format!(
                                "toi={} {:?} symbol ({},{}) does not carry bytes {}..{} of the object",
                                t.toi, oti.scheme, sbn, esi, off, end
                            ),
                        );
                    }
                }
            } else {
                *repair.entry(sbn).or_insert(0) += 1;
            }
        }
        for (sbn, n) in &repair {
            if *n > oti.parity as u64 {
                violate(ctx, "C08/too-many-repair-symbols", "-", format!("toi={} transfer {} block {}: {} repair symbols, {} configured", t.toi, t.n, sbn, n, oti.parity));
            }
        }
        if !rq_blocks.is_empty() {
            let sizes = wire::rq_subsymbol_sizes(e as usize, oti.sub_blocks as usize, oti.al as usize);
            for (sbn, v) in &rq_blocks {
                if v.iter().all(|s| s.as_ref().map(|x| x.len() as u64 == e).unwrap_or(false)) {
                    let symbols: Vec<Vec<u8>> = v.iter().map(|s| s.clone().unwrap()).collect();
                    let block = wire::rq_deinterleave(&symbols, &sizes);
                    for (m, c) in block.chunks(e as usize).enumerate() {
                        syms.insert((*sbn, m as u32), c.to_vec());
                    }
                }
            }
        }
        if complete_transfer && tl > 0 {
            ctx.borrow_mut().note("complete-transfers-checked");
            let mut missing = Vec::new();
            for (sbn, k) in ks.iter().enumerate() {
                for esi in 0..*k {
                    if !seen.contains_key(&(sbn as u32, esi as u32)) {
                        missing.push((sbn, esi));
                    }
                }
            }
            if !missing.is_empty() {
                violate(
                    ctx,
                    "C08/source-symbol-missing",
                    "-",
                    format!(
                        "toi={} {:?} transfer {} (tl={} E={} B={} ks={:?}): {} source symbols never emitted, first {:?}",
                        t.toi, oti.scheme, t.n, tl, e, oti.b, ks, missing.len(), missing.first()
                    ),
                );
            } else if o.cenc != CencSpec::Null {
                // a receiver following only the RFCs rebuilds the object from the source symbols
                match fdtview::reassemble(&syms, oti.b as u64, tl, e).and_then(|x| inflate(o.cenc, &x)) {
                    Ok(d) => {
                        let content = o.content();
                        // flute's own receiver stops at Content-Length; trailing bytes are not expected either
                        if d != content {
                            violate(ctx, "C08/decoded-content", "-", format!("toi={} content-decoding the reassembled source symbols gives {} bytes, object has {}", t.toi, d.len(), content.len()));
                        }
                    }
                    Err(er) => violate(ctx, "C08/decoded-content", "undecodable", format!("toi={} {}", t.toi, er)),
                }
            }
        }
        if complete_transfer && tl == 0 && t.pkts.len() != 1 {
            violate(ctx, "C08/empty-object-packets", "-", format!("toi={} empty object transfer has {} packets, expected the lone close-object packet", t.toi, t.pkts.len()));
        }
        // blocks open in increasing SBN
        let mut first_seen: Vec<u32> = Vec::new();
        let mut set = BTreeSet::new();
        for i in &t.pkts {
            let s = trace.pkts[*i].dec.sbn;
            if set.insert(s) {
                first_seen.push(s);
            }
        }
        if first_seen.windows(2).any(|w| w[1] < w[0]) && tl > 0 {
            violate(ctx, "C08/block-order", "-", format!("toi={} transfer {}: blocks first appear in order {:?}", t.toi, t.n, first_seen));
        }
    }
}

impl Prop for C08 {
    fn id(&self) -> &'static str {
        "C08"
    }
    fn info(&self) -> PropInfo {
        PropInfo {
            level: "exploration",
            rule: "seeded sender histories (1-3 objects x 5 FEC schemes x E x B x parity x interleave x multiplex x cenc x 1-3 transfers x carousel on/off x removal after a random packet index x immediate-stop x close-session packet) under varied poll schedules; every emitted packet is decoded by the harness's own RFC decoder and checked per transfer (Start/StopTransfer spans) against the RFC 5052 partition: each source symbol once, <= parity repair symbols, increasing ESIs, payload = E-byte slice, flags only where allowed. Non-trivial: at least one object packet emitted; distinct = distinct abstract event signatures.",
            assumptions: vec!["harness RFC decoder and RFC 5052 reference; flate2 for re-inflating", "Subscriber Start/StopTransfer events delimit transfers (they carry the instants flute uses)"],
            real: vec!["Sender and everything below (FEC encoders, compression, FDT, ALC/LCT builders)"],
            stub: vec!["application timeline", "wall clock", "poll schedule"],
        }
    }
    fn runs(&self, tier: Tier) -> u64 {
        match tier {
            Tier::Quick => 8000,
            Tier::Thorough => 200_000,
        }
    }
    fn generate(&self, _idx: u64, tier: Tier, rng: &mut Rng) -> Value {
        serde_json::to_value(gen(rng, tier)).unwrap()
    }
    fn run(&self, scn: &Value, ctx: &Ctx, scratch: &Path) {
        match serde_json::from_value::<Scn>(scn.clone()) {
            Ok(s) => run(&s, ctx, scratch),
            Err(e) => ctx.borrow_mut().note(&format!("bad-scenario:{}", e)),
        }
    }
    fn shrink(&self, scn: &Value) -> Vec<Value> {
        let s: Scn = match serde_json::from_value(scn.clone()) {
            Ok(s) => s,
            Err(_) => return vec![],
        };
        shrink_sender_scn(&s.sender)
            .into_iter()
            .map(|c| serde_json::to_value(Scn { sender: c }).unwrap())
            .collect()
    }
}
