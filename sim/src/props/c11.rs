//! C11 — announce before send: no object packet precedes a complete FDT instance listing it; a
//! pending new instance is sent in full before any further object packet.

use super::c08::gen_history;
use super::common::*;
use crate::ctx::{violate, Ctx};
use crate::engine::*;
use crate::fdtview;
use crate::rng::Rng;
use crate::sdrv::*;
use crate::spec::*;
use serde::{Deserialize, Serialize};
use serde_json::Value;
use std::collections::BTreeSet;
use std::path::Path;

#[derive(Clone, Debug, PartialEq, Serialize, Deserialize)]
pub struct Scn {
    pub sender: SenderScn,
}

pub struct C11;

pub fn gen(rng: &mut Rng, tier: Tier) -> Scn {
    let mut s = gen_history(rng, if tier == Tier::Quick { 100 } else { 400 }, true);
    // objects added while others are in flight, publishes at arbitrary packet indices,
    // multi-packet FDTs (small sender-wide symbol size)
    if rng.chance(0.5) {
        s.spec.oti.e = *rng.pick(&[32u16, 64, 128]);
        s.spec.oti.b = 64;
    }
    let n0 = s.objects.len();
    let extra = rng.range(0, 3) as usize;
    for j in 0..extra {
        let i = n0 + j;
        let mut o = gen_object(rng, i, &s.spec, 40);
        o.carousel = None;
        s.objects.push(o);
        let k = rng.range(1, 80);
        s.ops.push(TimedOp { when: When::AfterPkt(k), op: Op::Add(i) });
        match rng.below(3) {
            0 => s.ops.push(TimedOp { when: When::AfterPkt(k), op: Op::Publish }),
            1 => s.ops.push(TimedOp { when: When::AfterPkt(k + rng.range(1, 30)), op: Op::Publish }),
            _ => s.ops.push(TimedOp { when: When::AtUs(rng.range(0, 1_500_000)), op: Op::Publish }),
        }
    }
    for _ in 0..rng.range(0, 3) {
        s.ops.push(TimedOp { when: When::AfterPkt(rng.range(1, 120)), op: Op::Publish });
    }
    // publish immediately FOLLOWED by an add at the same instant (no read in between): the late object is not
    // part of that publication
    if rng.chance(0.25) {
        let i = s.objects.len();
        let mut o = gen_object(rng, i, &s.spec, 40);
        o.carousel = None;
        s.objects.push(o);
        let when = if rng.chance(0.5) { When::AfterPkt(rng.range(0, 60)) } else { When::AtUs(rng.range(0, 400_000)) };
        s.ops.push(TimedOp { when: when.clone(), op: Op::Publish });
        s.ops.push(TimedOp { when, op: Op::Add(i) });
        if rng.chance(0.5) {
            s.ops.push(TimedOp { when: When::AtUs(rng.range(400_000, 1_500_000)), op: Op::Publish });
        }
    }
    // the first objects are not always published right away
    if rng.chance(0.3) {
        if let Some(p) = s.ops.iter().position(|t| t.op == Op::Publish) {
            s.ops[p].when = When::AtUs(rng.range(0, 300_000));
        }
    }
    // publications that can FAIL (the FDT itself cannot be encoded with the sender-wide FEC parameters): a
    // Raptor FDT of 2-3 symbols, Reed-Solomon without parity symbol. Objects bring their own OTI.
    if rng.chance(0.12) {
        s.spec.oti = if rng.chance(0.6) {
            // (with a small maximum block length the FDT is cut into several blocks: a small one of 2-3 symbols
            // next to large ones of 4 must be refused as well)
            // (with large symbols an instance listing ONE object fits one symbol and can be published, one listing two
            // needs two symbols and cannot: the second of two objects starting in the same read() is postponed)
            OtiSpec::new(Scheme::Raptor, *rng.pick(&[64u16, 128, 256, 400, 512, 700, 1000, 1424]), *rng.pick(&[4u32, 5, 8, 64, 64]), 1, true)
        } else {
            OtiSpec::new(Scheme::Rs28, *rng.pick(&[64u16, 512, 1400]), 64, 0, true)
        };
        if rng.chance(0.5) {
            s.spec.full_fdt = true;
        } else if rng.chance(0.5) {
            // several sessions: objects start in the same read()
            for q in s.spec.queues.iter_mut() {
                q.1 = q.1.max(2);
            }
        }
        // objects that can never be announced are never sent: do not poll for ever
        s.poll.max_polls = s.poll.max_polls.min(400);
        for o in s.objects.iter_mut() {
            if o.oti.is_none() {
                o.oti = Some(OtiSpec::new(Scheme::NoCode, 16, 8, 0, rng.chance(0.5)));
            }
        }
    }
    // read-only accessors called at arbitrary points (right after an add, before the publish, ...): no side effect
    for _ in 0..rng.range(0, 3) {
        let when = match rng.below(3) {
            0 => When::AtUs(0),
            1 => When::AfterPkt(rng.range(0, 60)),
            _ => When::AtUs(rng.range(0, 400_000)),
        };
        let at = rng.below(s.ops.len() as u64 + 1) as usize;
        s.ops.insert(at, TimedOp { when, op: Op::QueryAccessors });
    }
    // set_complete(): later adds are refused, but the objects already queued still start - and must be announced -
    // afterwards (multiplexing, start times, lower-priority queues)
    if rng.chance(0.15) {
        let when = match rng.below(3) {
            0 => When::AtUs(0),
            1 => When::AfterPkt(rng.range(0, 40)),
            _ => When::AtUs(rng.range(0, 300_000)),
        };
        s.ops.push(TimedOp { when, op: Op::SetComplete });
    }
    // publications stamped with a clock ahead of the polling clock
    if rng.chance(0.06) {
        s.spec.publish_ahead_us = *rng.pick(&[1_000u64, 500_000, 2_000_000]);
    }
    // max_transfer_count = 0 (the object is still transmitted once): it must be announced like any other
    if rng.chance(0.06) {
        let i = rng.below(s.objects.len() as u64) as usize;
        if s.objects[i].carousel.is_none() {
            s.objects[i].max_transfer_count = 0;
        }
    }
    Scn { sender: s }
}

pub fn oracle(scn: &SenderScn, ctx: &Ctx, trace: &SenderTrace) {
    let txs = fdtview::fdt_transmissions(&trace.pkts);
    for t in &txs {
        if !trace.finished && t.last + 1 == trace.pkts.len() {
            continue; // the run was capped in the middle of this transmission
        }
        if let Some(e) = &t.error {
            violate(ctx, "C11/fdt-unreadable", "-", format!("FDT instance {} (packets {}..{}): {}", t.instance_id, t.first, t.last, e));
        }
    }
    let mode = if scn.spec.full_fdt { "full-fdt" } else { "being-transferred" };
    // rule 1: a complete instance listing the TOI precedes every object packet
    let mut reported = BTreeSet::new();
    for p in &trace.pkts {
        if p.dec.toi == 0 || p.dec.close_session {
            continue;
        }
        let ok = txs.iter().any(|t| {
            t.complete_at.map(|c| c < p.idx).unwrap_or(false)
                && t.doc.as_ref().map(|d| d.files.iter().any(|f| f.toi == p.dec.toi)).unwrap_or(false)
        });
        if !ok && reported.insert(p.dec.toi) {
            violate(
                ctx,
                "C11/object-before-fdt",
                mode,
                format!(
                    "packet {} of toi={} (sbn={} esi={}) is emitted before any FDT instance listing it has been emitted completely",
                    p.idx, p.dec.toi, p.dec.sbn, p.dec.esi
                ),
            );
        }
    }
    // rule 2: the first transmission of a new instance is not interleaved with object packets
    let mut seen_ids = BTreeSet::new();
    for t in &txs {
        if !seen_ids.insert(t.instance_id) {
            continue;
        }
        let end = t.complete_at.unwrap_or(t.last);
        if let Some(q) = trace.pkts[t.first..=end].iter().find(|q| q.dec.toi != 0 && !q.dec.close_session) {
            violate(
                ctx,
                "C11/fdt-interleaved-with-objects",
                mode,
                format!(
                    "new FDT instance {} spans packets {}..{} but packet {} belongs to toi={}",
                    t.instance_id, t.first, end, q.idx, q.dec.toi
                ),
            );
        }
    }
    let failed_publications = trace.ops.iter().filter(|r| r.op == Op::Publish && r.result == OpResult::Published(false)).count();
    if failed_publications > 0 {
        ctx.borrow_mut().note_n("publications-failed", failed_publications as u64);
        ctx.borrow_mut().count_fault("publish-fails");
    }
    // rule 3: after an explicit publication nothing but FDT packets until the new instance is out
    for r in &trace.ops {
        if r.op != Op::Publish || r.result != OpResult::Published(true) {
            continue;
        }
        let ids_before: BTreeSet<u32> = txs
            .iter()
            .filter(|t| trace.pkts[t.first].seq < r.seq)
            .map(|t| t.instance_id)
            .collect();
        let newtx = txs
            .iter()
            .find(|t| trace.pkts[t.first].seq > r.seq && !ids_before.contains(&t.instance_id));
        let until = match newtx {
            Some(t) => trace.pkts[t.complete_at.unwrap_or(t.last)].seq,
            None => u64::MAX,
        };
        if let Some(q) = trace
            .pkts
            .iter()
            .find(|q| q.seq > r.seq && q.seq < until && q.dec.toi != 0 && !q.dec.close_session)
        {
            violate(
                ctx,
                "C11/object-while-fdt-pending",
                mode,
                format!(
                    "publish at event {} but packet {} (toi={}) is emitted before the new instance {:?} is out",
                    r.seq, q.idx, q.dec.toi, newtx.map(|t| t.instance_id)
                ),
            );
        }
    }
    // rule 4 (being-transferred mode): a transfer start publishes a new instance; from the StartTransfer
    // event until that instance is completely out no object packet at all is emitted (not only none of the
    // starting object, which rule 1 covers)
    if !scn.spec.full_fdt {
        for e in trace.sub.iter().filter(|e| e.start) {
            // the first own packet of this transfer
            let own = match trace.pkts.iter().find(|p| p.seq > e.seq && p.dec.toi == e.toi) {
                Some(p) => p.seq,
                None => continue,
            };
            let ids_before: BTreeSet<u32> = txs.iter().filter(|t| trace.pkts[t.first].seq < e.seq).map(|t| t.instance_id).collect();
            let newtx = match txs.iter().find(|t| {
                let s = trace.pkts[t.first].seq;
                s > e.seq && s < own && !ids_before.contains(&t.instance_id)
            }) {
                Some(t) => t,
                None => continue,
            };
            let until = trace.pkts[newtx.complete_at.unwrap_or(newtx.last)].seq;
            if let Some(q) = trace.pkts.iter().find(|q| q.seq > e.seq && q.seq < until && q.dec.toi != 0 && !q.dec.close_session) {
                violate(
                    ctx,
                    "C11/object-while-fdt-pending",
                    "transfer-start",
                    format!(
                        "toi={} starts at event {} and FDT instance {} announcing it is pending, but packet {} (toi={}) is emitted before that instance is out (packets {}..{})",
                        e.toi, e.seq, newtx.instance_id, q.idx, q.dec.toi, newtx.first, newtx.complete_at.unwrap_or(newtx.last)
                    ),
                );
                break;
            }
        }
    }
}

pub fn run(scn: &Scn, ctx: &Ctx, scratch: &Path) {
    let drv = match Driver::new(&scn.sender, ctx, scratch) {
        Ok(d) => d,
        Err(e) => {
            ctx.borrow_mut().note(&format!("sender-build-failed:{}", truncate(&e, 40)));
            return;
        }
    };
    let trace = drv.run(&scn.sender);
    for e in &trace.wire_errors {
        violate(ctx, "C11/wire-discrepancy", "-", e.clone());
    }
    if trace.pkts.iter().any(|p| p.dec.toi != 0) {
        ctx.borrow_mut().nontrivial = true;
    }
    oracle(&scn.sender, ctx, &trace);
}

impl Prop for C11 {
    fn id(&self) -> &'static str {
        "C11"
    }
    fn info(&self) -> PropInfo {
        PropInfo {
            level: "exploration",
            rule: "seeded interleavings of add / publish / remove / read with advancing caller-supplied time: both publish modes, 1-3 queues, multiplex 0-4, objects added and published after arbitrary packet indices or at arbitrary instants, delayed first publication, multi-packet FDT instances, carousel objects. Oracle on the packet trace (FDT instances reassembled by the harness): (1) a completely emitted instance listing the TOI precedes every object packet, (2) the first transmission of a new instance is contiguous, (3) after an explicit publish only FDT packets until the new instance is out. Non-trivial: object packets emitted; distinct = abstract event signatures.",
            assumptions: vec!["harness RFC decoder / FDT reassembly / XML reader"],
            real: vec!["Sender and everything below"],
            stub: vec!["application timeline", "wall clock", "poll schedule"],
        }
    }
    fn runs(&self, tier: Tier) -> u64 {
        match tier {
            Tier::Quick => 24_000,
            Tier::Thorough => 200_000,
        }
    }
    fn generate(&self, _idx: u64, tier: Tier, rng: &mut Rng) -> Value {
        serde_json::to_value(gen(rng, tier)).unwrap()
    }
    fn run(&self, scn: &Value, ctx: &Ctx, scratch: &Path) {
        match serde_json::from_value::<Scn>(scn.clone()) {
            Ok(s) => run(&s, ctx, scratch),
            Err(e) => ctx.borrow_mut().note(&format!("bad-scenario:{}", e)),
        }
    }
    fn shrink(&self, scn: &Value) -> Vec<Value> {
        let s: Scn = match serde_json::from_value(scn.clone()) {
            Ok(s) => s,
            Err(_) => return vec![],
        };
        shrink_sender_scn(&s.sender)
            .into_iter()
            .map(|c| serde_json::to_value(Scn { sender: c }).unwrap())
            .collect()
    }
}
