//! C16 — carousel late join: a receiver starting at any packet boundary of a carousel session
//! delivers every carouselled object within two further full cycles.

use super::common::*;
use super::sendview::*;
use super::session::*;
use crate::ctx::{violate, Ctx};
use crate::engine::*;
use crate::rng::Rng;
use crate::sdrv::*;
use crate::spec::*;
use serde::{Deserialize, Serialize};
use serde_json::Value;
use std::path::Path;

#[derive(Clone, Debug, PartialEq, Serialize, Deserialize)]
pub struct Scn {
    pub sender: SenderScn,
    pub recv: RecvSpec,
    /// join offsets [lo, hi) relative to the start of the reference cycle; None = all offsets of the cycle
    pub offsets: Option<(u32, u32)>,
    pub cleanup_every: u32,
    /// evaluate the join offsets of all recorded cycles but the last three (instead of one reference cycle)
    #[serde(default)]
    pub long_span: bool,
    /// storage fault: the n-th `open()` of an object writer fails once. The object of that writer is lost for the
    /// cycle; the joiner is then given THREE full cycles instead of two
    #[serde(default)]
    pub open_fail_at: Option<u64>,
}

pub struct C16;

pub fn gen(idx: u64, rng: &mut Rng, _tier: Tier) -> Scn {
    // the first 60 scenarios form a fixed grid, the others are seeded
    let grid = idx < 60;
    let scheme = if grid { Scheme::ALL[(idx % 5) as usize] } else { *rng.pick(&Scheme::ALL) };
    let inband = if grid { (idx / 5) % 2 == 0 } else { rng.chance(0.5) };
    let full_fdt = if grid { (idx / 10) % 2 == 0 } else { rng.chance(0.5) };
    let interval_mode = if grid { (idx / 20) % 3 == 1 } else { rng.chance(0.5) };
    let nobj = if grid { 1 + ((idx / 20) % 3) as usize } else { rng.range(1, 3) as usize };
    let soti = if grid { OtiSpec::new(Scheme::NoCode, 1400, 64, 0, true) } else { gen_sender_oti(rng, None) };
    let mut spec = SenderSpec::basic(soti);
    spec.full_fdt = full_fdt;
    spec.interleave = if grid { 2 } else { rng.range(1, 4) as u8 };
    spec.queues = vec![(0, if grid { 2 } else { rng.range(0, 3) as u32 })];
    spec.fdt_carousel = CarouselSpec::DelayMs(if grid { 40 } else { *rng.pick(&[10u64, 40, 200]) });
    let mut objects = Vec::new();
    let mut ops = Vec::new();
    for i in 0..nobj {
        let (b, e): (u32, u16) = if scheme == Scheme::Raptor { (4, 8) } else { (*rng.pick(&[2u32, 3]), *rng.pick(&[4u16, 8])) };
        // some objects have many source blocks (bookkeeping of decoded-but-unwritten blocks across a join)
        let blocks = if grid { 2 } else if rng.chance(0.15) { rng.range(17, 30) } else { rng.range(1, 3) };
        let mut len = (blocks as usize * b as usize * e as usize).saturating_sub(if grid { 3 } else { rng.range(0, 5) as usize });
        if !grid && rng.chance(0.5) {
            // any size: symbol counts that are not a multiple of the block count, a last symbol of 1.. bytes
            // (a receiver that starts on in-band OTI rebuilds the block structure from F, T and Z)
            len = rng.range(1, (blocks * b as u64 + 2) * e as u64) as usize;
        }
        // (an empty object now and then: its lone packet may be seen before the FDT is complete)
        let empty = !grid && rng.chance(0.08);
        let mut o = ObjectSpec::basic(if empty { 0 } else { len.max(1) }, 0xC16 + idx * 7 + i as u64, i);
        o.oti = Some(OtiSpec::new(scheme, e, b, if scheme == Scheme::NoCode { 0 } else { 1 }, inband));
        o.inband_cenc = inband;
        if !grid && rng.chance(0.3) {
            o.cenc = *rng.pick(&[CencSpec::Gzip, CencSpec::Zlib]);
            o.kind = ContentKind::Text;
        }
        if !grid && o.cenc == CencSpec::Null && rng.chance(0.1) {
            // a disk error when one later cycle starts (the stream is rewound then): that cycle is lost, the carousel goes on
            o.source = SourceSpec::StreamFailingSeek(ReadSched::Full, rng.range(4, 9) as u32);
        }
        let d = if grid { 15 } else { *rng.pick(&[0u64, 5, 15, 60]) };
        o.carousel = Some(if interval_mode { CarouselSpec::IntervalMs(d + 10) } else { CarouselSpec::DelayMs(d) });
        o.max_transfer_count = if grid { 1 } else { *rng.pick(&[1u32, 1, 2]) };
        objects.push(o);
        ops.push(TimedOp { when: When::AtUs(0), op: Op::Add(i) });
    }
    ops.push(TimedOp { when: When::AtUs(0), op: Op::Publish });
    if !grid && nobj > 1 && rng.chance(0.3) {
        // one publication per object, all pending before the first read (for f in files { add; publish })
        ops.clear();
        for i in 0..nobj {
            ops.push(TimedOp { when: When::AtUs(0), op: Op::Add(i) });
            ops.push(TimedOp { when: When::AtUs(0), op: Op::Publish });
        }
    }
    let mut poll = PollSpec::simple(if grid { 1000 } else { rng.range(200, 3000) });
    poll.burst = if grid { Some(4) } else if rng.chance(0.5) { None } else { Some(rng.range(1, 6) as u32) };
    poll.max_pkts = 1500;
    poll.max_polls = 3000;
    let mut recv = RecvSpec::basic();
    recv.object_timeout_ms = Some(3_600_000);
    let mut sender = SenderScn { spec, objects, ops, poll, snapshots: false };
    let mut long_span = false;
    if !grid && rng.chance(0.12) {
        // the life cycle of FDT instances inside a long-running carousel: (a) the 20-bit instance id wraps in the
        // middle of the recording, (b) the session outlives fdt_duration (32-45 s: flute renews 5 s before
        // expiry), with cycles of seconds. Joins are then evaluated over ALL recorded cycles but the last three.
        long_span = true;
        if rng.chance(0.5) {
            sender.spec.fdt_start_id = 0x100000 - rng.range(2, 12) as u32;
        } else {
            sender.spec.fdt_duration_ms = *rng.pick(&[32_000u64, 38_000, 45_000]);
            for o in sender.objects.iter_mut() {
                o.carousel = Some(CarouselSpec::DelayMs(*rng.pick(&[4000u64, 7000])));
                o.max_transfer_count = 1;
            }
            sender.spec.fdt_carousel = CarouselSpec::DelayMs(*rng.pick(&[1000u64, 2500]));
            sender.poll = PollSpec::simple(20_000);
            sender.poll.burst = None;
            sender.poll.max_pkts = 1500;
            sender.poll.max_polls = 3500;
        }
    }
    // set_complete(): nothing can be added any more, the carousel - and the renewal of the FDT - go on as before
    if !grid && rng.chance(0.3) {
        let when = if rng.chance(0.5) { When::AtUs(0) } else { When::AfterPkt(rng.range(1, 40)) };
        sender.ops.push(TimedOp { when, op: Op::SetComplete });
    }
    Scn {
        sender,
        recv,
        offsets: None,
        cleanup_every: if grid { 0 } else { *rng.pick(&[0u32, 3]) },
        long_span,
        open_fail_at: if !grid && rng.chance(0.15) { Some(rng.below(3)) } else { None },
    }
}

pub fn run(scn: &Scn, ctx: &Ctx, scratch: &Path) {
    let sess = match run_sender(&scn.sender, ctx, scratch) {
        Some(s) => s,
        None => return,
    };
    let trace = &sess.trace;
    let tr = transfers(&scn.sender, trace);
    if sess.objs.is_empty() {
        return;
    }
    // every object of the carousel keeps coming round: the time since its last transfer started never exceeds three times
    // the longest period it has shown (a lost cycle - failed rewind of a stream source - doubles one period, no more)
    let end_us = trace.pkts.last().map(|p| p.t_us).unwrap_or(0);
    for o in &sess.objs {
        let starts: Vec<u64> = tr.list.iter().filter(|t| t.obj == o.idx && !t.pkts.is_empty()).map(|t| trace.pkts[t.pkts[0]].t_us).collect();
        if starts.len() < 3 {
            continue;
        }
        let period = starts.windows(2).map(|w| w[1] - w[0]).max().unwrap_or(0);
        let idle = end_us.saturating_sub(*starts.last().unwrap());
        if idle > 3 * period + 100_000 {
            violate(
                ctx,
                "C16/carousel-object-no-longer-sent",
                "-",
                format!("toi={}: {} transfers, longest period {} us, but nothing of it in the last {} us of the recording (the object is still in the carousel)", o.toi, starts.len(), period, idle),
            );
        }
    }
    // reference cycle: from the start of the 2nd transfer burst of object 0 to the start of the next burst
    let first = &sess.objs[0];
    let step = scn.sender.objects[first.idx].max_transfer_count.max(1) as usize;
    let mine: Vec<&Transfer> = tr.list.iter().filter(|t| t.obj == first.idx && !t.pkts.is_empty()).collect();
    if mine.len() < 5 * step + 1 {
        ctx.borrow_mut().note("skip:too-few-cycles-recorded");
        return;
    }
    let cyc_lo = mine[step].pkts[0];
    let n_cycles = mine.len() / step;
    let cyc_hi = if scn.long_span && n_cycles >= 6 { mine[(n_cycles - 3) * step].pkts[0] } else { mine[2 * step].pkts[0] };
    let (lo, hi) = match scn.offsets {
        Some((a, b)) => (cyc_lo + a as usize, (cyc_lo + b as usize).min(cyc_hi)),
        None => (cyc_lo, cyc_hi),
    };
    let ep = [scn.sender.spec.endpoint.build()];
    let mut joins = 0u64;
    let mut fdt_starved = false;
    let need = if scn.open_fail_at.is_some() { 3 } else { 2 };
    for j in lo..hi {
        // deadline: end of the second full transfer burst of every object and of the second full FDT
        // transmission that start at or after the join
        let mut deadline = j;
        let mut enough = true;
        for o in &sess.objs {
            let st = scn.sender.objects[o.idx].max_transfer_count.max(1) as usize;
            let full: Vec<&Transfer> = tr
                .list
                .iter()
                .filter(|t| t.obj == o.idx && t.stop_seq.is_some() && t.pkts.first().map(|p| *p >= j).unwrap_or(false))
                .collect();
            if full.len() < need * st {
                enough = false;
                break;
            }
            deadline = deadline.max(*full[need * st - 1].pkts.last().unwrap());
        }
        let fdts: Vec<usize> = sess.txs.iter().filter(|t| t.first >= j && t.complete_at.is_some()).map(|t| t.last).collect();
        if enough && fdts.len() < 2 && !fdt_starved {
            // every object went through two more full cycles: the FDT carousel must have come round as well,
            // provided the recording lasts long enough for its configured repetition delay
            let d_us = match scn.sender.spec.fdt_carousel {
                CarouselSpec::DelayMs(d) | CarouselSpec::IntervalMs(d) => d * 1000,
                CarouselSpec::DelayMax | CarouselSpec::IntervalMax => u64::MAX / 8,
            };
            let left = trace.pkts.last().map(|p| p.t_us).unwrap_or(0).saturating_sub(trace.pkts[j].t_us);
            // one FDT round = its repetition delay + the time one transmission takes on this poll schedule
            let tx_us = sess.txs.iter().map(|t| trace.pkts[t.last].t_us - trace.pkts[t.first].t_us).max().unwrap_or(0);
            if left >= 4 * (d_us + tx_us) + 50_000 {
                fdt_starved = true;
                violate(
                    ctx,
                    "C16/not-delivered-after-late-join",
                    "fdt-not-repeated",
                    format!(
                        "receiver joined at packet {}: in the following {} us every object went through two more full cycles but only {} complete FDT transmission(s) followed (FDT carousel delay {} us): a late joiner never learns the FDT",
                        j, left, fdts.len(), d_us
                    ),
                );
            }
        }
        if !enough || fdts.len() < need {
            ctx.borrow_mut().note("skip:join-too-close-to-the-end");
            continue;
        }
        deadline = deadline.max(fdts[need - 1]);
        let which: Vec<usize> = (j..=deadline.min(trace.pkts.len() - 1)).collect();
        let dl = deliveries_in_order(trace, &which);
        let wf = crate::monitor::WriterFaults { fail_open_at: scn.open_fail_at, ..Default::default() };
        let mut r = receive(&scn.recv, ctx, &ep, &dl, wf, "r0", scn.cleanup_every, 0);
        for o in &sess.objs {
            let (exact, wrong, _) = completes_exact(&r.monitor, o);
            if wrong > 0 {
                violate(ctx, "C16/complete-wrong-bytes", "-", format!("join at packet {}: toi={} complete with wrong bytes", j, o.toi));
            }
            if exact == 0 {
                let p = &trace.pkts[j];
                violate(
                    ctx,
                    "C16/not-delivered-after-late-join",
                    "-",
                    format!(
                        "receiver joined at packet {} (toi={} sbn={} esi={}; offset {} in the cycle) and saw packets {}..={} without loss ({} full cycles of every object and of the FDT{}) but toi={} {:?} was not delivered",
                        j, p.dec.toi, p.dec.sbn, p.dec.esi, j - cyc_lo, j, deadline, need, if scn.open_fail_at.is_some() { "; one writer open() failed once" } else { "" }, o.toi, o.scheme
                    ),
                );
            }
        }
        r.run.drop_receiver();
        joins += 1;
    }
    if joins > 0 {
        let mut c = ctx.borrow_mut();
        c.nontrivial = true;
        c.note_n("join-offsets-evaluated", joins);
        c.count_fault("late-join");
    }
}

impl Prop for C16 {
    fn id(&self) -> &'static str {
        "C16"
    }
    fn info(&self) -> PropInfo {
        PropInfo {
            level: "fault_enumeration",
            rule: "carousel sessions are recorded for >= 5 cycles; a fresh receiver is started at EVERY packet offset of one full cycle (exhaustive over join offsets: mid-FDT, mid-object, mid-block, between cycles) and fed the loss-free suffix up to the end of the second full cycle of every object and of the FDT. Grid of 60 configurations (5 FEC schemes x in-band/FDT-only OTI and CENC x FullFDT/ObjectsBeingTransferred x delay/interval carousel x 1-3 objects) plus seeded ones (sender-wide FEC for the FDT, cenc, interleave, multiplex, transfers per burst, poll schedules). Oracle: every carouselled object complete and byte-exact by the deadline. Non-trivial: at least one join offset evaluated.",
            assumptions: vec!["a cycle of an object = max_transfer_count consecutive transfers (flute sends them back to back, then waits)"],
            real: vec!["Sender", "MultiReceiver/Receiver and everything below"],
            stub: vec!["channel (loss-free suffix)", "clocks", "receiver start time (late join = fresh receiver)"],
        }
    }
    fn runs(&self, tier: Tier) -> u64 {
        match tier {
            Tier::Quick => 2400,
            Tier::Thorough => 12_000,
        }
    }
    fn generate(&self, idx: u64, tier: Tier, rng: &mut Rng) -> Value {
        serde_json::to_value(gen(idx, rng, tier)).unwrap()
    }
    fn run(&self, scn: &Value, ctx: &Ctx, scratch: &Path) {
        match serde_json::from_value::<Scn>(scn.clone()) {
            Ok(s) => run(&s, ctx, scratch),
            Err(e) => ctx.borrow_mut().note(&format!("bad-scenario:{}", e)),
        }
    }
    fn exhaustive(&self, _tier: Tier) -> Option<String> {
        Some("every join offset within one full carousel cycle of each generated session".into())
    }
    fn shrink(&self, scn: &Value) -> Vec<Value> {
        let s: Scn = match serde_json::from_value(scn.clone()) {
            Ok(s) => s,
            Err(_) => return vec![],
        };
        let mut out = Vec::new();
        match s.offsets {
            None => {
                for (a, b) in [(0u32, 64u32), (64, 4096), (0, 16), (16, 64)] {
                    let mut n = s.clone();
                    n.offsets = Some((a, b));
                    out.push(n);
                }
            }
            Some((a, b)) if b - a > 1 => {
                let mid = a + (b - a) / 2;
                let mut n = s.clone();
                n.offsets = Some((a, mid));
                out.push(n);
                let mut n = s.clone();
                n.offsets = Some((mid, b));
                out.push(n);
            }
            _ => {}
        }
        if s.offsets.map(|(a, b)| b - a <= 1).unwrap_or(false) {
            for c in shrink_sender_scn(&s.sender) {
                let mut n = s.clone();
                n.sender = c;
                out.push(n);
            }
        }
        out.into_iter().map(|s| serde_json::to_value(s).unwrap()).collect()
    }
}
