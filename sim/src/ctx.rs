//! Per-run context: the choice tape (generate / replay), fault counters, trace fingerprints, violations.

use crate::rng::{fnv1a, mix, Rng};
use serde::{Deserialize, Serialize};
use std::cell::RefCell;
use std::collections::{BTreeMap, HashMap};
use std::rc::Rc;
use std::sync::atomic::{AtomicU64, Ordering};
use std::sync::Arc;

#[derive(Clone, Debug, Serialize, Deserialize, PartialEq)]
pub struct Violation {
    /// Rule key, e.g. "C02/recoverable-not-delivered".
    pub rule: String,
    /// Finer classification computed from the history (known findings match on this).
    pub class: String,
    pub msg: String,
}

/// One non-default decision drawn during a run: (stream label, index within the stream, value).
#[derive(Clone, Debug, Serialize, Deserialize, PartialEq)]
pub struct TapeEntry(pub String, pub u64, pub u64);

#[derive(Clone, Debug, Default, Serialize, Deserialize, PartialEq)]
pub struct Tape(pub Vec<TapeEntry>);

pub struct RunCtx {
    replay: bool,
    base: Rng,
    streams: HashMap<String, Rng>,
    counters: HashMap<String, u64>,
    tape_in: HashMap<(String, u64), u64>,
    pub tape_out: Vec<TapeEntry>,
    /// how often each fault kind actually fired
    pub faults: BTreeMap<String, u64>,
    /// harness-side reach probes / relaxations applied
    pub notes: BTreeMap<String, u64>,
    pub violations: Vec<Violation>,
    trace_hash: u64,
    sig_hash: u64,
    pub trace_len: u64,
    pub seq: Arc<AtomicU64>,
    pub sim_ms: u64,
    pub nontrivial: bool,
    pub log: Option<Vec<String>>,
}

pub type Ctx = Rc<RefCell<RunCtx>>;

impl RunCtx {
    pub fn generate(seed: u64) -> RunCtx {
        RunCtx::mk(false, seed, &Tape::default())
    }

    pub fn replay(seed: u64, tape: &Tape) -> RunCtx {
        RunCtx::mk(true, seed, tape)
    }

    fn mk(replay: bool, seed: u64, tape: &Tape) -> RunCtx {
        let mut tape_in = HashMap::new();
        for e in &tape.0 {
            tape_in.insert((e.0.clone(), e.1), e.2);
        }
        RunCtx {
            replay,
            base: Rng::new(seed),
            streams: HashMap::new(),
            counters: HashMap::new(),
            tape_in,
            tape_out: Vec::new(),
            faults: BTreeMap::new(),
            notes: BTreeMap::new(),
            violations: Vec::new(),
            trace_hash: 0x1234_5678_9abc_def0,
            sig_hash: 0x0fed_cba9_8765_4321,
            trace_len: 0,
            seq: Arc::new(AtomicU64::new(0)),
            sim_ms: 0,
            nontrivial: false,
            log: None,
        }
    }

    pub fn into_shared(self) -> Ctx {
        Rc::new(RefCell::new(self))
    }

    pub fn is_replay(&self) -> bool {
        self.replay
    }

    /// A decision in [0, n); 0 is the benign default. In generate mode `draw` decides (only called then).
    pub fn choice_with(&mut self, label: &str, draw: impl FnOnce(&mut Rng) -> u64) -> u64 {
        let idx = {
            let c = self.counters.entry(label.to_string()).or_insert(0);
            let v = *c;
            *c += 1;
            v
        };
        if self.replay {
            return self
                .tape_in
                .get(&(label.to_string(), idx))
                .copied()
                .unwrap_or(0);
        }
        if !self.streams.contains_key(label) {
            let r = self.base.sub(label);
            self.streams.insert(label.to_string(), r);
        }
        let v = draw(self.streams.get_mut(label).unwrap());
        if v != 0 {
            self.tape_out.push(TapeEntry(label.to_string(), idx, v));
        }
        v
    }

    /// Fault coin: fires with probability p in generate mode; counted when it fires.
    pub fn fault(&mut self, label: &str, p: f64) -> bool {
        let v = self.choice_with(label, |r| if p > 0.0 && r.chance(p) { 1 } else { 0 });
        if v != 0 {
            *self.faults.entry(kind_of(label).to_string()).or_insert(0) += 1;
        }
        v != 0
    }

    /// Fault with a value: returns 0 (no fault) or 1 + uniform[0, n).
    pub fn fault_val(&mut self, label: &str, p: f64, n: u64) -> u64 {
        let v = self.choice_with(label, |r| {
            if p > 0.0 && n > 0 && r.chance(p) {
                1 + r.below(n)
            } else {
                0
            }
        });
        if v != 0 {
            *self.faults.entry(kind_of(label).to_string()).or_insert(0) += 1;
        }
        v
    }

    /// Plain choice in [0, n) (not a fault; 0 default on replay of a shrunk tape).
    pub fn pick(&mut self, label: &str, n: u64) -> u64 {
        if n <= 1 {
            return 0;
        }
        let v = self.choice_with(label, |r| r.below(n));
        v.min(n - 1)
    }

    pub fn count_fault(&mut self, kind: &str) {
        *self.faults.entry(kind.to_string()).or_insert(0) += 1;
    }

    pub fn note(&mut self, key: &str) {
        *self.notes.entry(key.to_string()).or_insert(0) += 1;
    }

    pub fn note_n(&mut self, key: &str, n: u64) {
        *self.notes.entry(key.to_string()).or_insert(0) += n;
    }

    pub fn next_seq(&self) -> u64 {
        self.seq.fetch_add(1, Ordering::SeqCst)
    }

    /// Feed the determinism fingerprint (full detail) — never draws randomness or reads clocks.
    pub fn trace(&mut self, ev: &str) {
        self.trace_hash = mix(self.trace_hash, fnv1a(ev.as_bytes()));
        self.trace_len += 1;
        if let Some(l) = self.log.as_mut() {
            l.push(ev.to_string());
        }
    }

    pub fn trace_bytes(&mut self, tag: &str, b: &[u8]) {
        self.trace_hash = mix(self.trace_hash, mix(fnv1a(tag.as_bytes()), fnv1a(b)));
        self.trace_len += 1;
        if let Some(l) = self.log.as_mut() {
            l.push(format!("{} len={} h={:016x}", tag, b.len(), fnv1a(b)));
        }
    }

    /// Feed the abstract signature (event kinds only; payloads, times and ids abstracted away).
    pub fn sig(&mut self, kind: &str) {
        self.sig_hash = mix(self.sig_hash, fnv1a(kind.as_bytes()));
    }

    pub fn trace_hash(&self) -> u64 {
        self.trace_hash
    }

    pub fn sig_hash(&self) -> u64 {
        self.sig_hash
    }

    pub fn violate(&mut self, rule: &str, class: &str, msg: String) {
        // keep the first occurrence per (rule, class): later ones are usually consequences
        if self
            .violations
            .iter()
            .any(|v| v.rule == rule && v.class == class)
        {
            return;
        }
        self.violations.push(Violation {
            rule: rule.to_string(),
            class: class.to_string(),
            msg,
        });
    }
}

/// "drop/r0" -> "drop"
fn kind_of(label: &str) -> &str {
    label.split('/').next().unwrap_or(label)
}

pub fn violate(ctx: &Ctx, rule: &str, class: &str, msg: String) {
    ctx.borrow_mut().violate(rule, class, msg);
}
