//! Serializable, fully explicit descriptions of senders, objects and receivers, and their
//! translation into flute's own types. Everything a replay needs is in these structs.

use crate::rng::Rng;
use flute::core::lct::Cenc;
use flute::core::{Oti, UDPEndpoint};
use flute::sender::{
    CacheControl, CarouselRepeatMode, Config, FDTPublishMode, ObjectDesc, PriorityQueue, Profile,
    TOIMaxLength, TargetAcquisition, TransferConfig,
};
use serde::{Deserialize, Serialize};
use std::io::{Read, Seek, SeekFrom};
use std::time::{Duration, SystemTime, UNIX_EPOCH};

/// Simulation epoch: 2023-11-14T22:13:20Z, in UNIX milliseconds.
pub const T0_MS: u64 = 1_700_000_000_000;

pub fn systime_ms(ms: u64) -> SystemTime {
    UNIX_EPOCH + Duration::from_millis(ms)
}
pub fn systime_us(us: u64) -> SystemTime {
    UNIX_EPOCH + Duration::from_micros(us)
}
pub fn ms_of(t: SystemTime) -> u64 {
    t.duration_since(UNIX_EPOCH).unwrap().as_millis() as u64
}
pub fn us_of(t: SystemTime) -> u64 {
    t.duration_since(UNIX_EPOCH).unwrap().as_micros() as u64
}

#[derive(Clone, Copy, Debug, PartialEq, Eq, Serialize, Deserialize, Hash)]
pub enum Scheme {
    NoCode,
    Rs28,
    Rs28Us,
    RaptorQ,
    Raptor,
}

impl Scheme {
    pub const ALL: [Scheme; 5] = [
        Scheme::NoCode,
        Scheme::Rs28,
        Scheme::Rs28Us,
        Scheme::RaptorQ,
        Scheme::Raptor,
    ];
    pub fn fec_id(&self) -> u8 {
        match self {
            Scheme::NoCode => 0,
            Scheme::Raptor => 1,
            Scheme::Rs28 => 5,
            Scheme::RaptorQ => 6,
            Scheme::Rs28Us => 129,
        }
    }
    /// true when the code is MDS (any k of n symbols decode)
    pub fn is_mds(&self) -> bool {
        matches!(self, Scheme::Rs28 | Scheme::Rs28Us)
    }
    pub fn short(&self) -> &'static str {
        match self {
            Scheme::NoCode => "nocode",
            Scheme::Rs28 => "rs28",
            Scheme::Rs28Us => "rs28us",
            Scheme::RaptorQ => "raptorq",
            Scheme::Raptor => "raptor",
        }
    }
}

#[derive(Clone, Debug, PartialEq, Serialize, Deserialize)]
pub struct OtiSpec {
    pub scheme: Scheme,
    pub e: u16,
    pub b: u32,
    pub parity: u32,
    pub inband_fti: bool,
    pub sub_blocks: u16,
    pub al: u8,
}

impl OtiSpec {
    pub fn new(scheme: Scheme, e: u16, b: u32, parity: u32, inband_fti: bool) -> OtiSpec {
        OtiSpec {
            scheme,
            e,
            b,
            parity,
            inband_fti,
            sub_blocks: 1,
            al: 1,
        }
    }

    pub fn build(&self) -> Result<Oti, String> {
        let mut oti = match self.scheme {
            Scheme::NoCode => Oti::new_no_code(self.e, self.b as u16),
            Scheme::Rs28 => Oti::new_reed_solomon_rs28(self.e, self.b as u8, self.parity as u8)
                .map_err(|e| format!("{:?}", e))?,
            Scheme::Rs28Us => Oti::new_reed_solomon_rs28_under_specified(
                self.e,
                self.b as u16,
                self.parity as u16,
            )
            .map_err(|e| format!("{:?}", e))?,
            Scheme::RaptorQ => Oti::new_raptorq(
                self.e,
                self.b as u16,
                self.parity as u16,
                self.sub_blocks,
                self.al,
            )
            .map_err(|e| format!("{:?}", e))?,
            Scheme::Raptor => Oti::new_raptor(
                self.e,
                self.b as u16,
                self.parity as u16,
                self.sub_blocks as u8,
                self.al,
            )
            .map_err(|e| format!("{:?}", e))?,
        };
        oti.inband_fti = self.inband_fti;
        Ok(oti)
    }

    /// Maximum number of source blocks the scheme's payload id can address.
    pub fn max_blocks(&self) -> u64 {
        match self.scheme {
            Scheme::NoCode => 65535,
            Scheme::Rs28 => 255,
            Scheme::Rs28Us => u32::MAX as u64,
            Scheme::RaptorQ => 255,
            Scheme::Raptor => 65535,
        }
    }

    /// What `Oti::max_transfer_length` documents: min(scheme maximum, E*B*max_blocks).
    pub fn max_transfer_length(&self) -> u64 {
        let cap: u64 = match self.scheme {
            Scheme::RaptorQ => 0xFFFFFFFFFF,
            _ => 0xFFFFFFFFFFFF,
        };
        let size = self.e as u128 * self.b as u128 * self.max_blocks() as u128;
        if size > cap as u128 {
            cap
        } else {
            size as u64
        }
    }
}

#[derive(Clone, Copy, Debug, PartialEq, Eq, Serialize, Deserialize)]
pub enum CencSpec {
    Null,
    Zlib,
    Deflate,
    Gzip,
}

impl CencSpec {
    pub const ALL: [CencSpec; 4] = [
        CencSpec::Null,
        CencSpec::Zlib,
        CencSpec::Deflate,
        CencSpec::Gzip,
    ];
    pub fn build(&self) -> Cenc {
        match self {
            CencSpec::Null => Cenc::Null,
            CencSpec::Zlib => Cenc::Zlib,
            CencSpec::Deflate => Cenc::Deflate,
            CencSpec::Gzip => Cenc::Gzip,
        }
    }
    pub fn code(&self) -> u8 {
        match self {
            CencSpec::Null => 0,
            CencSpec::Zlib => 1,
            CencSpec::Deflate => 2,
            CencSpec::Gzip => 3,
        }
    }
    pub fn name(&self) -> &'static str {
        match self {
            CencSpec::Null => "null",
            CencSpec::Zlib => "zlib",
            CencSpec::Deflate => "deflate",
            CencSpec::Gzip => "gzip",
        }
    }
}

#[derive(Clone, Copy, Debug, PartialEq, Serialize, Deserialize)]
pub enum CarouselSpec {
    DelayMs(u64),
    IntervalMs(u64),
    /// a delay / an interval that never elapses (Duration::MAX): "repeat only when triggered", "send each FDT once"
    DelayMax,
    IntervalMax,
}

impl CarouselSpec {
    pub fn build(&self) -> CarouselRepeatMode {
        match self {
            CarouselSpec::DelayMs(ms) => {
                CarouselRepeatMode::DelayBetweenTransfers(Duration::from_millis(*ms))
            }
            CarouselSpec::IntervalMs(ms) => {
                CarouselRepeatMode::IntervalBetweenStartTimes(Duration::from_millis(*ms))
            }
            CarouselSpec::DelayMax => CarouselRepeatMode::DelayBetweenTransfers(Duration::MAX),
            CarouselSpec::IntervalMax => CarouselRepeatMode::IntervalBetweenStartTimes(Duration::MAX),
        }
    }
}

#[derive(Clone, Copy, Debug, PartialEq, Eq, Serialize, Deserialize)]
pub enum ToiLen {
    L16,
    L32,
    L48,
    L64,
    L80,
    L112,
}

impl ToiLen {
    pub const ALL: [ToiLen; 6] = [
        ToiLen::L16,
        ToiLen::L32,
        ToiLen::L48,
        ToiLen::L64,
        ToiLen::L80,
        ToiLen::L112,
    ];
    pub fn bits(&self) -> u32 {
        match self {
            ToiLen::L16 => 16,
            ToiLen::L32 => 32,
            ToiLen::L48 => 48,
            ToiLen::L64 => 64,
            ToiLen::L80 => 80,
            ToiLen::L112 => 112,
        }
    }
    pub fn build(&self) -> TOIMaxLength {
        match self {
            ToiLen::L16 => TOIMaxLength::ToiMax16,
            ToiLen::L32 => TOIMaxLength::ToiMax32,
            ToiLen::L48 => TOIMaxLength::ToiMax48,
            ToiLen::L64 => TOIMaxLength::ToiMax64,
            ToiLen::L80 => TOIMaxLength::ToiMax80,
            ToiLen::L112 => TOIMaxLength::ToiMax112,
        }
    }
}

#[derive(Clone, Debug, PartialEq, Serialize, Deserialize)]
pub struct EndpointSpec {
    pub src: Option<String>,
    pub dst: String,
    pub port: u16,
}

impl EndpointSpec {
    pub fn build(&self) -> UDPEndpoint {
        UDPEndpoint::new(self.src.clone(), self.dst.clone(), self.port)
    }
    pub fn default_ep() -> EndpointSpec {
        EndpointSpec {
            src: None,
            dst: "224.0.0.1".into(),
            port: 3400,
        }
    }
}

#[derive(Clone, Debug, PartialEq, Serialize, Deserialize)]
pub struct SenderSpec {
    pub tsi: u64,
    pub endpoint: EndpointSpec,
    pub oti: OtiSpec,
    pub fdt_duration_ms: u64,
    pub fdt_carousel: CarouselSpec,
    pub fdt_start_id: u32,
    pub fdt_cenc: CencSpec,
    pub fdt_inband_sct: bool,
    pub full_fdt: bool,
    /// (priority, multiplex_files)
    pub queues: Vec<(u32, u32)>,
    pub interleave: u8,
    pub rfc3926: bool,
    /// the application stamps its publications with a clock that is this much AHEAD of the one it polls with
    /// (publish(now + ahead), read(now)): another clock source, a wall clock stepped back in between
    #[serde(default)]
    pub publish_ahead_us: u64,
    pub toi_len: ToiLen,
    /// `None` = random default (supplied by the simulator through the H2 hook as `toi_seed`)
    pub toi_initial: Option<String>,
    pub toi_seed: Option<String>,
    pub groups: Option<Vec<String>>,
}

impl SenderSpec {
    pub fn basic(oti: OtiSpec) -> SenderSpec {
        SenderSpec {
            tsi: 1,
            endpoint: EndpointSpec::default_ep(),
            oti,
            fdt_duration_ms: 3_600_000,
            fdt_carousel: CarouselSpec::DelayMs(1000),
            fdt_start_id: 1,
            fdt_cenc: CencSpec::Null,
            fdt_inband_sct: true,
            full_fdt: true,
            queues: vec![(0, 3)],
            interleave: 4,
            rfc3926: false,
            publish_ahead_us: 0,
            toi_len: ToiLen::L112,
            toi_initial: Some("1".into()),
            toi_seed: None,
            groups: None,
        }
    }

    pub fn config(&self) -> Config {
        let mut queues = std::collections::BTreeMap::new();
        for (p, m) in &self.queues {
            queues.insert(*p, PriorityQueue::new(*m));
        }
        Config {
            fdt_duration: Duration::from_millis(self.fdt_duration_ms),
            fdt_carousel_mode: self.fdt_carousel.build(),
            fdt_start_id: self.fdt_start_id,
            fdt_cenc: self.fdt_cenc.build(),
            fdt_inband_sct: self.fdt_inband_sct,
            fdt_publish_mode: if self.full_fdt {
                FDTPublishMode::FullFDT
            } else {
                FDTPublishMode::ObjectsBeingTransferred
            },
            priority_queues: queues,
            interleave_blocks: self.interleave,
            profile: if self.rfc3926 {
                Profile::RFC3926
            } else {
                Profile::RFC6726
            },
            toi_max_length: self.toi_len.build(),
            toi_initial_value: self
                .toi_initial
                .as_ref()
                .map(|s| s.parse::<u128>().unwrap_or(1)),
            groups: self.groups.clone(),
        }
    }

    pub fn build(&self) -> Result<flute::sender::Sender, String> {
        let oti = self.oti.build()?;
        flute::verif::set_toi_seed(
            self.toi_seed
                .as_ref()
                .map(|s| s.parse::<u128>().unwrap_or(1)),
        );
        let s = flute::sender::Sender::new(self.endpoint.build(), self.tsi, &oti, &self.config());
        flute::verif::set_toi_seed(None);
        Ok(s)
    }
}

#[derive(Clone, Copy, Debug, PartialEq, Eq, Serialize, Deserialize)]
pub enum ContentKind {
    Random,
    Text,
    Zeros,
    Counter,
}

pub fn content(seed: u64, len: usize, kind: ContentKind) -> Vec<u8> {
    match kind {
        ContentKind::Random => Rng::new(seed ^ 0xC0FFEE).bytes(len),
        ContentKind::Zeros => vec![0u8; len],
        ContentKind::Counter => (0..len)
            .map(|i| ((i as u64).wrapping_mul(2654435761).wrapping_add(seed) >> 7) as u8)
            .collect(),
        ContentKind::Text => {
            let words = [
                "flute ", "alc ", "lct ", "object ", "carousel ", "symbol ", "block ", "fdt ",
                "multicast ", "\n",
            ];
            let mut r = Rng::new(seed ^ 0x7E87);
            let mut v = Vec::with_capacity(len + 16);
            while v.len() < len {
                v.extend_from_slice(r.pick(&words).as_bytes());
            }
            v.truncate(len);
            v
        }
    }
}

#[derive(Clone, Debug, PartialEq, Serialize, Deserialize)]
pub enum SourceSpec {
    Buffer,
    /// in-memory Read+Seek with a read-size schedule
    Stream(ReadSched),
    /// the same, handed to flute at a non-zero position (permille of its length; 1000 = at its end):
    /// the application sniffed a header, measured the length by seeking to the end, or reuses the stream
    StreamAt(ReadSched, u32),
    /// the n-th seek() of the stream fails ONCE with an I/O error (a disk error at the moment a transfer starts and the
    /// source is rewound); the stream works again afterwards
    StreamFailingSeek(ReadSched, u32),
    /// a content-encoded object handed over as a stream: the application encodes the content itself
    /// (`sender::compress::compress_stream`), gives flute the ENCODED stream with the cenc in the transfer
    /// configuration, and then sets `content_length` / `md5` of the description to those of the content.
    /// (With cenc = Null this is a plain stream.)
    PreEncodedStream(ReadSched),
    /// real temp file (cache_in_ram = false)
    File,
    /// real temp file read into RAM by flute (cache_in_ram = true)
    FileInRam,
}

#[derive(Clone, Debug, PartialEq, Serialize, Deserialize)]
pub enum ReadSched {
    Full,
    One,
    Fixed(usize),
    Random { seed: u64, max: usize },
    BufLike(usize),
    /// chunks of at most `chunk` bytes; every `every`-th call fails with ErrorKind::Interrupted (EINTR, never twice in
    /// a row): a retryable error, the read is simply made again
    Interrupted { chunk: usize, every: u32 },
    /// chunks of at most `chunk` bytes; the `nth` call (1-based, counted over the life of the stream) fails ONCE with a
    /// non-retryable kind (0 Other, 1 TimedOut, 2 WouldBlock, 3 BrokenPipe): a transient disk / network-filesystem error
    FailOnce { chunk: usize, nth: u32, kind: u8 },
}

#[derive(Clone, Debug, PartialEq, Serialize, Deserialize)]
pub enum CacheSpec {
    NoCache,
    MaxStale,
    ExpiresMs(u64),
    ExpiresAtMs(u64),
}

#[derive(Clone, Debug, PartialEq, Serialize, Deserialize)]
pub enum TargetSpec {
    Fast,
    DurationMs(u64),
    /// absolute UNIX ms
    AtMs(u64),
}

#[derive(Clone, Debug, PartialEq, Serialize, Deserialize)]
pub struct ObjectSpec {
    pub len: usize,
    pub seed: u64,
    pub kind: ContentKind,
    pub location: String,
    pub ctype: String,
    pub md5: bool,
    pub prio: u32,
    pub oti: Option<OtiSpec>,
    pub cenc: CencSpec,
    pub inband_cenc: bool,
    pub max_transfer_count: u32,
    pub carousel: Option<CarouselSpec>,
    /// absolute UNIX ms
    pub start_ms: Option<u64>,
    pub target: Option<TargetSpec>,
    pub cache: Option<CacheSpec>,
    pub groups: Option<Vec<String>>,
    pub etag: Option<String>,
    pub immediate_stop: Option<bool>,
    pub source: SourceSpec,
    /// take the TOI from a previously allocated handle (index into the run's handle list)
    pub use_handle: Option<usize>,
    /// build the ObjectDesc through the typed builders (CreateFromBuffer / CreateFromStream / CreateFromFile)
    /// instead of the ObjectDesc::create_from_* functions
    #[serde(default)]
    pub via_builder: bool,
    /// an OpenTelemetry propagator entry (written into the FDT as an extra base64 attribute of the File)
    #[serde(default)]
    pub optel: Option<(String, String)>,
}

impl ObjectSpec {
    pub fn basic(len: usize, seed: u64, idx: usize) -> ObjectSpec {
        ObjectSpec {
            len,
            seed,
            kind: ContentKind::Random,
            location: format!("file:///obj{}.bin", idx),
            ctype: "application/octet-stream".into(),
            md5: true,
            prio: 0,
            oti: None,
            cenc: CencSpec::Null,
            inband_cenc: false,
            max_transfer_count: 1,
            carousel: None,
            start_ms: None,
            target: None,
            cache: None,
            groups: None,
            etag: None,
            immediate_stop: None,
            source: SourceSpec::Buffer,
            use_handle: None,
            via_builder: false,
            optel: None,
        }
    }

    pub fn content(&self) -> Vec<u8> {
        content(self.seed, self.len, self.kind)
    }

    pub fn transfer_config(&self) -> Result<TransferConfig, String> {
        Ok(TransferConfig {
            max_transfer_count: self.max_transfer_count,
            carousel_mode: self.carousel.map(|c| c.build()),
            target_acquisition: self.target.as_ref().map(|t| match t {
                TargetSpec::Fast => TargetAcquisition::AsFastAsPossible,
                TargetSpec::DurationMs(ms) => {
                    TargetAcquisition::WithinDuration(Duration::from_millis(*ms))
                }
                TargetSpec::AtMs(ms) => TargetAcquisition::WithinTime(systime_ms(*ms)),
            }),
            cache_control: self.cache.as_ref().map(|c| match c {
                CacheSpec::NoCache => CacheControl::NoCache,
                CacheSpec::MaxStale => CacheControl::MaxStale,
                CacheSpec::ExpiresMs(ms) => CacheControl::Expires(Duration::from_millis(*ms)),
                CacheSpec::ExpiresAtMs(ms) => CacheControl::ExpiresAt(systime_ms(*ms)),
            }),
            groups: self.groups.clone(),
            cenc: self.cenc.build(),
            inband_cenc: self.inband_cenc,
            oti: match &self.oti {
                Some(o) => Some(o.build()?),
                None => None,
            },
            transfer_start_time: self.start_ms.map(systime_ms),
            toi: None,
            optel_propagator: self.optel.as_ref().map(|(k, v)| std::collections::HashMap::from([(k.clone(), v.clone())])),
            e_tag: self.etag.clone(),
            allow_immediate_stop_before_first_transfer: self.immediate_stop,
        })
    }

    /// Build the flute object. `scratch` is a directory for temp-file sources.
    pub fn build(&self, scratch: &std::path::Path, idx: usize) -> Result<Box<ObjectDesc>, String> {
        let cfg = self.transfer_config()?;
        let url = url::Url::parse(&self.location).map_err(|e| format!("url {:?}", e))?;
        let data = self.content();
        if let SourceSpec::PreEncodedStream(sched) = &self.source {
            return self.build_pre_encoded(data, sched, &url, cfg);
        }
        if self.via_builder {
            use flute::sender::{CreateFromBuffer, CreateFromFile, CreateFromStream};
            let r = match &self.source {
                SourceSpec::Buffer => CreateFromBuffer::builder().content(data).content_type(self.ctype.clone()).content_location(url).compute_md5(self.md5).config(cfg).build().create(),
                SourceSpec::Stream(sched) => CreateFromStream::builder()
                    .stream(Box::new(SimStream::new(data, sched.clone())))
                    .content_type(self.ctype.clone())
                    .content_location(url)
                    .compute_md5(self.md5)
                    .config(cfg)
                    .build()
                    .create(),
                SourceSpec::StreamFailingSeek(sched, nth) => {
                    let mut s = SimStream::new(data, sched.clone());
                    s.fail_seek_nth = Some(*nth);
                    CreateFromStream::builder().stream(Box::new(s)).content_type(self.ctype.clone()).content_location(url).compute_md5(self.md5).config(cfg).build().create()
                }
                SourceSpec::StreamAt(sched, permille) => {
                    let mut s = SimStream::new(data, sched.clone());
                    s.pos = (s.data.len() as u64 * (*permille).min(1000) as u64 + 999) / 1000;
                    CreateFromStream::builder().stream(Box::new(s)).content_type(self.ctype.clone()).content_location(url).compute_md5(self.md5).config(cfg).build().create()
                }
                SourceSpec::PreEncodedStream(_) => unreachable!(),
                SourceSpec::File | SourceSpec::FileInRam => {
                    let path = scratch.join(format!("src-{}.bin", idx));
                    std::fs::write(&path, &data).map_err(|e| format!("write temp {:?}", e))?;
                    CreateFromFile::builder()
                        .path(path)
                        .content_location(Some(url))
                        .content_type(self.ctype.clone())
                        .cache_in_ram(matches!(self.source, SourceSpec::FileInRam))
                        .compute_md5(self.md5)
                        .config(cfg)
                        .build()
                        .create()
                }
            };
            return r.map_err(|e| format!("{:?}", e));
        }
        let r = match &self.source {
            SourceSpec::Buffer => {
                ObjectDesc::create_from_buffer(data, &self.ctype, &url, self.md5, cfg)
            }
            SourceSpec::Stream(sched) => ObjectDesc::create_from_stream(
                Box::new(SimStream::new(data, sched.clone())),
                &self.ctype,
                &url,
                self.md5,
                cfg,
            ),
            SourceSpec::StreamAt(sched, permille) => {
                let mut s = SimStream::new(data, sched.clone());
                s.pos = (s.data.len() as u64 * (*permille).min(1000) as u64 + 999) / 1000;
                ObjectDesc::create_from_stream(Box::new(s), &self.ctype, &url, self.md5, cfg)
            }
            SourceSpec::StreamFailingSeek(sched, nth) => {
                let mut s = SimStream::new(data, sched.clone());
                s.fail_seek_nth = Some(*nth);
                ObjectDesc::create_from_stream(Box::new(s), &self.ctype, &url, self.md5, cfg)
            }
            SourceSpec::PreEncodedStream(_) => unreachable!(),
            SourceSpec::File | SourceSpec::FileInRam => {
                let path = scratch.join(format!("src-{}.bin", idx));
                std::fs::write(&path, &data).map_err(|e| format!("write temp {:?}", e))?;
                ObjectDesc::create_from_file(
                    &path,
                    Some(&url),
                    &self.ctype,
                    matches!(self.source, SourceSpec::FileInRam),
                    self.md5,
                    cfg,
                )
            }
        };
        r.map_err(|e| format!("{:?}", e))
    }

    /// The pre-encoded stream variant (see `SourceSpec::PreEncodedStream`).
    fn build_pre_encoded(&self, data: Vec<u8>, sched: &ReadSched, url: &url::Url, cfg: TransferConfig) -> Result<Box<ObjectDesc>, String> {
        let cenc = self.cenc.build();
        if cenc == flute::core::lct::Cenc::Null {
            return ObjectDesc::create_from_stream(Box::new(SimStream::new(data, sched.clone())), &self.ctype, url, self.md5, cfg).map_err(|e| format!("{:?}", e));
        }
        let mut enc: Vec<u8> = Vec::new();
        flute::sender::compress::compress_stream(&mut std::io::Cursor::new(&data), cenc, &mut enc).map_err(|e| format!("{:?}", e))?;
        let mut obj = if self.via_builder {
            flute::sender::CreateFromStream::builder()
                .stream(Box::new(SimStream::new(enc, sched.clone())))
                .content_type(self.ctype.clone())
                .content_location(url.clone())
                .compute_md5(false)
                .config(cfg)
                .build()
                .create()
        } else {
            ObjectDesc::create_from_stream(Box::new(SimStream::new(enc, sched.clone())), &self.ctype, url, false, cfg)
        }
        .map_err(|e| format!("{:?}", e))?;
        obj.content_length = data.len() as u64;
        obj.md5 = if self.md5 {
            use base64::Engine;
            Some(base64::engine::general_purpose::STANDARD.encode(md5::compute(&data).0))
        } else {
            None
        };
        Ok(obj)
    }

    /// Effective OTI of the object given the sender's default.
    pub fn eff_oti<'a>(&'a self, sender: &'a OtiSpec) -> &'a OtiSpec {
        self.oti.as_ref().unwrap_or(sender)
    }
}

/// In-memory `Read + Seek` source whose `read` returns scheduled (short) lengths.
#[derive(Debug)]
pub struct SimStream {
    data: Vec<u8>,
    pos: u64,
    sched: ReadSched,
    rng: Rng,
    pub reads: u64,
    buf_left: usize,
    seeks: u32,
    pub fail_seek_nth: Option<u32>,
}

impl SimStream {
    pub fn new(data: Vec<u8>, sched: ReadSched) -> SimStream {
        let seed = match &sched {
            ReadSched::Random { seed, .. } => *seed,
            _ => 0,
        };
        SimStream {
            data,
            pos: 0,
            sched,
            rng: Rng::new(seed),
            reads: 0,
            buf_left: 0,
            seeks: 0,
            fail_seek_nth: None,
        }
    }
}

impl Read for SimStream {
    fn read(&mut self, buf: &mut [u8]) -> std::io::Result<usize> {
        self.reads += 1;
        if let ReadSched::Interrupted { every, .. } = &self.sched {
            if *every > 1 && self.reads % (*every as u64) == 0 {
                return Err(std::io::Error::new(std::io::ErrorKind::Interrupted, "simulated EINTR"));
            }
        }
        if let ReadSched::FailOnce { nth, kind, .. } = &self.sched {
            if self.reads == *nth as u64 {
                let k = match kind {
                    0 => std::io::ErrorKind::Other,
                    1 => std::io::ErrorKind::TimedOut,
                    2 => std::io::ErrorKind::WouldBlock,
                    _ => std::io::ErrorKind::BrokenPipe,
                };
                return Err(std::io::Error::new(k, "simulated transient I/O error"));
            }
        }
        let avail = (self.data.len() as u64).saturating_sub(self.pos) as usize;
        let mut n = buf.len().min(avail);
        if n > 0 {
            n = match &self.sched {
                ReadSched::Full => n,
                ReadSched::One => 1,
                ReadSched::Fixed(k) => n.min((*k).max(1)),
                ReadSched::Interrupted { chunk, .. } => n.min((*chunk).max(1)),
                ReadSched::FailOnce { chunk, .. } => n.min((*chunk).max(1)),
                ReadSched::Random { max, .. } => n.min(1 + self.rng.below((*max).max(1) as u64) as usize),
                ReadSched::BufLike(cap) => {
                    // like a BufReader: serve from an internal buffer of `cap` bytes, refilled when empty
                    if self.buf_left == 0 {
                        self.buf_left = (*cap).max(1);
                    }
                    let k = n.min(self.buf_left);
                    self.buf_left -= k;
                    k
                }
            };
        }
        let p = self.pos as usize;
        buf[..n].copy_from_slice(&self.data[p..p + n]);
        self.pos += n as u64;
        Ok(n)
    }
}

impl Seek for SimStream {
    fn seek(&mut self, pos: SeekFrom) -> std::io::Result<u64> {
        self.seeks += 1;
        if self.fail_seek_nth == Some(self.seeks) {
            return Err(std::io::Error::new(std::io::ErrorKind::Other, "simulated I/O error on seek"));
        }
        let np: i128 = match pos {
            SeekFrom::Start(p) => p as i128,
            SeekFrom::End(o) => self.data.len() as i128 + o as i128,
            SeekFrom::Current(o) => self.pos as i128 + o as i128,
        };
        if np < 0 {
            return Err(std::io::Error::new(
                std::io::ErrorKind::InvalidInput,
                "seek before start",
            ));
        }
        self.pos = np as u64;
        self.buf_left = 0;
        Ok(self.pos)
    }
}

#[derive(Clone, Debug, PartialEq, Serialize, Deserialize)]
pub struct RecvSpec {
    pub max_objects_error: usize,
    pub session_timeout_ms: Option<u64>,
    pub object_timeout_ms: Option<u64>,
    pub cache_size: Option<usize>,
    pub receive_once: bool,
    pub expiry_check: bool,
    pub md5_check: bool,
}

impl RecvSpec {
    pub fn basic() -> RecvSpec {
        RecvSpec {
            max_objects_error: 0,
            session_timeout_ms: None,
            object_timeout_ms: Some(10_000),
            cache_size: None,
            receive_once: true,
            expiry_check: true,
            md5_check: true,
        }
    }
    pub fn config(&self) -> flute::receiver::Config {
        flute::receiver::Config {
            max_objects_error: self.max_objects_error,
            session_timeout: self.session_timeout_ms.map(Duration::from_millis),
            object_timeout: self.object_timeout_ms.map(Duration::from_millis),
            object_max_cache_size: self.cache_size,
            object_receive_once: self.receive_once,
            enable_fdt_expiration_check: self.expiry_check,
        }
    }
}

/// Compress like the sender does, with the harness's own use of flate2 (to know the transfer length).
pub fn inflate(cenc: CencSpec, data: &[u8]) -> Result<Vec<u8>, String> {
    let mut out = Vec::new();
    let r = match cenc {
        CencSpec::Null => {
            out.extend_from_slice(data);
            Ok(0)
        }
        CencSpec::Zlib => flate2::read::ZlibDecoder::new(data).read_to_end(&mut out),
        CencSpec::Deflate => flate2::read::DeflateDecoder::new(data).read_to_end(&mut out),
        CencSpec::Gzip => flate2::read::GzDecoder::new(data).read_to_end(&mut out),
    };
    r.map_err(|e| format!("inflate: {:?}", e))?;
    Ok(out)
}
