#!/usr/bin/env python3
"""Cross-process determinism self-test: every run seed executed in independent processes at two worker
counts (1 process and 16 processes); trace hashes and abstract signatures must be identical.
Usage: tools_selftest_determinism.py [n_per_property] [ids...]   -> exit 0 ok, 2 mismatch (harness error)"""
import subprocess, sys, os, json, concurrent.futures as cf
ROOT = os.path.dirname(os.path.abspath(__file__))
BIN = os.path.join(ROOT, "sim/target/release/flute-sim")
n = int(sys.argv[1]) if len(sys.argv) > 1 else 300
ids = sys.argv[2:] or [c["property_id"] for c in json.load(open(os.path.join(ROOT, "MANIFEST.json")))["checks"]]
env = dict(os.environ, VERIF_ROOT=ROOT)

def run(pid, shard, shards):
    p = subprocess.run([BIN, "selftest", "determinism", pid, str(n), "--shard", str(shard), "--shards", str(shards)], capture_output=True, text=True, env=env)
    import re
    return [l for l in p.stdout.splitlines() if re.match(r'^\d+ [0-9a-f]{16} [0-9a-f]{16} \d+$', l)]

bad = 0
report = []
for pid in ids:
    a = sorted(run(pid, 0, 1), key=lambda l: int(l.split()[0]))
    with cf.ThreadPoolExecutor(16) as ex:
        parts = list(ex.map(lambda s: run(pid, s, 16), range(16)))
    b = sorted([l for p in parts for l in p], key=lambda l: int(l.split()[0]))
    mism = sum(1 for x, y in zip(a, b) if x != y) + abs(len(a) - len(b))
    report.append((pid, len(a), mism))
    print(f"{pid}: {len(a)} seeds x 2 process layouts, mismatches={mism}")
    bad += mism
open(os.path.join(ROOT, "SELFTEST_DETERMINISM.txt"), "w").write("\n".join(f"{p} seeds={k} mismatches={m}" for p, k, m in report) + "\n")
sys.exit(2 if bad else 0)
