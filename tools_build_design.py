#!/usr/bin/env python3
"""Assemble DESIGN.md from its parts (design/*.md) and the seeded/ results table."""
import json, glob, os
ROOT=os.path.dirname(os.path.abspath(__file__))
parts=["head","sec21","sec22","sec23","sec3","sec4","sec5","sec6","sec10"]
txt="".join(open(f"{ROOT}/design/{p}.md").read() for p in parts)
rows=["| id | property | what the change does (one line) | needs to manifest | caught by (quick) | first rule reported |","|---|---|---|---|---|---|"]
for d in sorted(glob.glob(f"{ROOT}/seeded/*/meta.json")):
    m=json.load(open(d))
    notes=m.get("summary","")
    needs=m.get("needs","see notes.md")
    caught=", ".join(m.get("caught_by") or []) or "**missed**"
    rule=""
    for c,r in (m.get("quick_checks") or {}).items():
        if r.get("exit")==1 and r.get("rules"):
            rule=r["rules"][0].split(" class=")[0].replace("rule=","")
            break
    rows.append(f"| {m['id']} | {m['breaks_property']} | {notes} | {needs} | {caught} | {rule} |")
# run counts in the per-property headings come from the built binary (`flute-sim list`)
import re, subprocess
try:
    out=subprocess.run([f"{ROOT}/sim/target/release/flute-sim","list"],capture_output=True,text=True,env=dict(os.environ,VERIF_ROOT=ROOT)).stdout
    for line in out.splitlines():
        f=line.split()
        if len(f)==3:
            pid,q,th=f[0],int(f[1]),int(f[2])
            fmt=lambda n: f"{n:,}".replace(","," ")
            txt=re.sub(r"(### %s — [^\n]*?\(`props/c\d\d\.rs`, )[^)]*\)"%pid, lambda m: m.group(1)+f"{fmt(q)} / {fmt(th)} runs)", txt)
except Exception as e:
    print("run counts not refreshed:", e)
txt=txt.replace("@SEEDED_TABLE@","\n".join(rows)+"\n")
open(f"{ROOT}/DESIGN.md","w").write(txt)
print("DESIGN.md", len(txt.splitlines()), "lines;", len(rows)-2, "seeded rows")
