#!/usr/bin/env python3
"""Confirm and evaluate seeded defects written by independent sub-agents.

For each /tmp/seeded-out/<ID>-<n>/ {patch.diff, demo.rs, notes.md}:
  1. confirm, in the scratch worktree /tmp/wt/<ID> moved to /repo's HEAD: the patch applies, the crate
     builds, the existing suite passes with it, the demo FAILS with it and PASSES without it;
  2. run our quick check(s) against it in an isolated copy (/tmp/eval: a worktree of /repo + a copy of
     /verif/sim whose flute dependency points at that worktree), so that /repo itself is never touched
     while other work is going on;
  3. when confirmed, store it under /verif/seeded/<ID>-<n>/ with meta.json.
Usage: tools_seed_eval.py <ID-n> [<ID-n> ...] [--checks C01,C09] [--skip-confirm]
"""
import json, os, shutil, subprocess, sys, time

_TMP = os.environ.get("SEED_EVAL_DIR", "/tmp/eval") + "-tmp"
os.makedirs(_TMP, exist_ok=True)
ENV = dict(os.environ, CARGO_NET_OFFLINE="true", TMPDIR=_TMP)
OUT = "/tmp/seeded-out"
EVAL = os.environ.get("SEED_EVAL_DIR", "/tmp/eval")  # several evaluations can run side by side in different directories


def sh(cmd, cwd=None, timeout=3600):
    p = subprocess.run(cmd, shell=True, cwd=cwd, env=ENV, capture_output=True, text=True, timeout=timeout)
    return p.returncode, p.stdout + p.stderr


def head():
    return sh("git -C /repo rev-parse HEAD")[1].strip()


def setup_eval():
    os.makedirs(EVAL, exist_ok=True)
    if not os.path.isdir(f"{EVAL}/repo"):
        sh(f"git -C /repo worktree add --detach {EVAL}/repo HEAD")
        shutil.copy("/repo/Cargo.lock", f"{EVAL}/repo/Cargo.lock")
    sh(f"git -C {EVAL}/repo checkout -q -- . && git -C {EVAL}/repo checkout -q --detach {head()}")
    os.makedirs(f"{EVAL}/root/replays", exist_ok=True)
    # the COMMITTED harness (so that edits in progress in /verif/sim are never picked up half-way)
    sh(f"mkdir -p {EVAL}/sim && git -C /verif archive HEAD sim | tar -x -m -C {EVAL}")
    t = open(f"{EVAL}/sim/Cargo.toml").read().replace('path = "/repo"', f'path = "{EVAL}/repo"')
    open(f"{EVAL}/sim/Cargo.toml", "w").write(t)
    shutil.copy("/verif/KNOWN_FINDINGS.txt", f"{EVAL}/root/KNOWN_FINDINGS.txt")
    shutil.copy("/verif/properties.jsonl", f"{EVAL}/root/properties.jsonl")


def confirm(sid):
    prop = sid.split("-")[0]
    wt = f"/tmp/wt/{prop}"
    d = f"{OUT}/{sid}"
    res = {"id": sid}
    if not os.path.isdir(wt):
        sh(f"git -C /repo worktree add --detach {wt} HEAD")
        shutil.copy("/repo/Cargo.lock", f"{wt}/Cargo.lock")
    sh(f"git -C {wt} checkout -q -- . ; rm -f {wt}/tests/seeded_demo*.rs; git -C {wt} checkout -q --detach {head()}")
    rc, o = sh(f"git -C {wt} apply --check {d}/patch.diff")
    res["applies"] = rc == 0
    if rc != 0:
        res["error"] = o[-400:]
        return res
    shutil.copy(f"{d}/demo.rs", f"{wt}/tests/seeded_demo.rs")
    rc, o = sh("cargo test --offline -j 8 --test seeded_demo 2>&1 | tail -15", cwd=wt)
    res["demo_passes_without"] = "test result: ok" in o
    sh(f"git -C {wt} apply {d}/patch.diff")
    rc, o = sh("cargo test --offline -j 8 --test seeded_demo 2>&1 | tail -15", cwd=wt)
    res["demo_fails_with"] = ("test result: FAILED" in o) or ("panicked" in o)
    os.remove(f"{wt}/tests/seeded_demo.rs")
    rc, o = sh("cargo test --offline -j 8 --workspace --no-fail-fast 2>&1 | grep -E '^test result|error(\\[|:)|warning: unused' ", cwd=wt)
    oks = o.count("test result: ok")
    res["suite_passes_with"] = oks >= 3 and "FAILED" not in o and "error" not in o
    res["suite_out"] = o[-300:]
    sh(f"git -C {wt} checkout -q -- .")
    return res


def run_check(c, env):
    """What ./check does: the seeded search, then the regression corpus of the property."""
    import glob
    p = subprocess.run(f"./target/release/flute-sim check {c} quick --no-evidence", shell=True, cwd=f"{EVAL}/sim", env=env, capture_output=True, text=True, timeout=3600)
    rc = p.returncode
    lines = [l for l in p.stdout.splitlines() if l.startswith("  rule=")]
    for f in sorted(glob.glob(f"/verif/regressions/{c}-*.json")):
        q = subprocess.run(f"./target/release/flute-sim replay {f}", shell=True, cwd=f"{EVAL}/sim", env=env, capture_output=True, text=True, timeout=600)
        if q.returncode != 0:
            rc = rc or q.returncode
            lines += [l + " [regression corpus]" for l in q.stdout.splitlines() if l.startswith("  rule=")]
    return rc, lines


def evaluate(sid, checks):
    d = f"{OUT}/{sid}"
    setup_eval()
    rc, o = sh(f"git -C {EVAL}/repo apply {d}/patch.diff")
    if rc != 0:
        return {"eval_error": o[-300:]}
    rc, o = sh("cargo build --release --offline 2>&1 | tail -5", cwd=f"{EVAL}/sim")
    out = {}
    for c in checks:
        t = time.time()
        env = dict(ENV, VERIF_ROOT=f"{EVAL}/root")
        env.pop("TMPDIR", None)
        rc, lines = run_check(c, env)
        out[c] = {"exit": rc, "wall_s": round(time.time() - t, 1), "rules": [l.strip()[:260] for l in lines[:4]]}
    sh(f"git -C {EVAL}/repo checkout -q -- .")
    return out


def main():
    args = [a for a in sys.argv[1:] if not a.startswith("--")]
    checks_opt = None
    skip = "--skip-confirm" in sys.argv
    for a in sys.argv[1:]:
        if a.startswith("--checks"):
            checks_opt = a.split("=", 1)[1].split(",")
    for sid in args:
        prop = sid.split("-")[0]
        res = {"id": sid} if skip else confirm(sid)
        ok = skip or (res.get("applies") and res.get("demo_passes_without") and res.get("demo_fails_with") and res.get("suite_passes_with"))
        res["confirmed"] = bool(ok)
        if ok:
            res["checks"] = evaluate(sid, checks_opt or [prop])
            res["caught_by"] = [c for c, r in res["checks"].items() if r["exit"] == 1]
            dst = f"/verif/seeded/{sid}"
            os.makedirs(dst, exist_ok=True)
            for f in ("patch.diff", "demo.rs", "notes.md"):
                if os.path.exists(f"{OUT}/{sid}/{f}"):
                    shutil.copy(f"{OUT}/{sid}/{f}", f"{dst}/{f}")
            meta = {
                "id": sid,
                "breaks_property": prop,
                "needs_to_manifest": "see notes.md (written by the sub-agent that seeded it)",
                "confirmed": {k: res.get(k) for k in ("applies", "demo_passes_without", "demo_fails_with", "suite_passes_with")},
                "confirmed_at_repo_commit": head(),
                "what_was_run": "tools_seed_eval.py: existing suite + demo with/without the patch in a scratch worktree; quick checks against an isolated copy with the patch applied",
                "quick_checks": res["checks"],
                "caught_by": res["caught_by"],
            }
            try:
                S = json.load(open("/verif/seeded/SUMMARIES.json"))
                if sid in S:
                    meta["summary"], meta["needs"] = S[sid]
                    meta["needs_to_manifest"] = meta["needs"]
            except Exception:
                pass
            if os.path.exists(f"{dst}/meta.json") and skip:
                old = json.load(open(f"{dst}/meta.json"))
                old["quick_checks"].update(meta["quick_checks"])
                old["caught_by"] = sorted(set(old.get("caught_by", [])) | set(meta["caught_by"]))
                meta = dict(old, confirmed_at_repo_commit=old.get("confirmed_at_repo_commit"))
            json.dump(meta, open(f"{dst}/meta.json", "w"), indent=1)
        print(json.dumps(res))
        with open(f"{OUT}/RESULTS.jsonl", "a") as f:
            f.write(json.dumps(res) + "\n")


if __name__ == "__main__":
    main()
